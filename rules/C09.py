"""C09 -- the legaliser's constraint system (tools/legalfloor): structure of the equations built.
The smoothing tolerance and everything GEKKO does with the equations are not decided here."""
from __future__ import annotations

import ast

from framelint.core import rule, Ctx
from framelint.srcmodel import walk_own, AnalysisError
from framelint.canon import (Canon, canon_function, show, S, to_poly, mk_lt, mk_not, mk_and, mk_or, mk_eq, k_num, k_str, contains, skey, atoms_of,
                             Sigma, K_TRUE, K_FALSE, K_NONE, single_defs, deref, Poly, diff_paths)
from framelint.peval import peval_block, paths
from .common import LEGAL, LMODEL, ETREE, GEOM, call_name, norm_stmt
from .C01 import _alpha

S_ = ("self",)
CMP = ("g", "Cmp")
from framelint.canon import canon_function as _canon_function_expanded

def canon_function(fi, model=None, opts=None, expand=True):
    return _canon_function_expanded(fi, model, opts, expand=expand)



def cmp_(n):
    return ("a", CMP, n)


def has_str(e: S, sub: str) -> bool:
    """does any string constant inside e contain ``sub``?"""
    return bool(atoms_of(e, lambda x: len(x) == 3 and x[0] == "k" and x[1] == "str" and sub in x[2]))


def _equations(block) -> list:
    """(group, lhs, cmp, rhs) of every Equation(...) appended in a canonical block (through single-def locals)"""
    d = deref(block, single_defs(block))
    out = []
    for e in atoms_of(d, lambda x: x[0] == "c" and x[1] == ("g", "Equation") and len(x[2]) >= 3):
        out.append((e[2][0], e[2][1], e[2][2], e[2][3] if len(e[2]) > 3 else None))
    return out


@rule("C09", "R1.side-tables", "CCP-TABLE/TUPLE",
      "the side of a branch travels consistently: StogLocation -> slot of the module tuple (TRUNK 0, N 1, S 2, E 3, W 4) in "
      "netlist_to_utils; the tuple is unpacked as (trunk, N, S, E, W) and each list is added with its own Cardinal; "
      "Model.add_rect dispatches each Cardinal to the builder of the same side", floor=3)
def r1(ctx: Ctx) -> None:
    f = ctx.func(LEGAL, "netlist_to_utils")
    c = canon_function(f, ctx.model)
    loc = ("a", ("g", "Rectangle"), "StogLocation")
    want = {"NORTH": 1, "SOUTH": 2, "EAST": 3, "WEST": 4}
    got = {}
    # the dispatch is evaluated for every location in turn (an if / elif chain, a table lookup, any order of the tests):
    # what is done with the rectangle on every path that location can take
    from framelint.peval import traces, fold as _fold
    from .common import const_tables
    tables = const_tables(ctx, f)
    rect_loops = [lp for lp in atoms_of(c, lambda x: x[0] == "for" and len(x) == 5 and isinstance(x[2], tuple) and x[2][:1] == ("a",) and x[2][2] == "rectangles")]
    if len(rect_loops) == 1:
        lp = rect_loops[0]
        here = ("a", lp[1], "location")
        for role in ["TRUNK", "NORTH", "SOUTH", "EAST", "WEST"]:
            body = Sigma(raw_subst={here: ("a", loc, role), **tables}).apply(lp[3])
            slots = set()
            for lits, effs, out in traces(body, keep_sets=True):
                done = None
                for st in effs:
                    if st[0] == "expr" and st[1][0] == "c" and st[1][1][0] == "a" and st[1][1][2] == "append" and st[1][1][1][0] == "s":
                        k = _fold(st[1][1][1][2])
                        done = k[2][0] if k[0] == "k" and k[1] == "num" else -1
                    elif st[0] == "set" and len(st) == 3 and st[2][0] == "tuple" and len(st[2][1]) == 5:
                        done = 0 if all(st[2][1][k] == ("s", st[1], k_num(k)) for k in range(1, 5)) else -1
                slots.add(done)
            if len(slots) == 1 and None not in slots:
                got[role] = slots.pop()
    ctx.site(f.where, "role -> slot table", table=got)
    if got != {**want, "TRUNK": 0}:
        ctx.report(f.where, f"role-slots {sorted(got.items())}", "netlist_to_utils does not file the rectangles as (trunk, north list, south list, east list, west list)",
                   lineno=f.node.lineno)
    rects = atoms_of(c, lambda x: x[0] == "tuple" and len(x[1]) == 4 and all(y[0] == "a" for y in x[1]))
    ctx.site(f.where, "box tuple == (center.x, center.y, shape.w, shape.h)")
    ok = any(r[1][0][2] == "x" and r[1][1][2] == "y" and r[1][2][2] == "w" and r[1][3][2] == "h" and r[1][0][1][2] == "center" and r[1][2][1][2] == "shape" for r in rects)
    if not ok:
        ctx.report(f.where, "box-tuple", "the box handed to the legaliser is not (center.x, center.y, shape.w, shape.h)", lineno=f.node.lineno)
    g = ctx.func(LEGAL, "Model.first_build_model")
    cg = canon_function(g, ctx.model)
    loops = [lp for lp in cg if lp[0] == "for" and lp[1][0] == "tuple" and len(lp[1][1]) == 5]
    ctx.require(len(loops) == 1, "first_build_model: loop unpacking the module tuples not found")
    t, nb, sb, eb, wb = loops[0][1][1]
    pairs = {}
    for il in loops[0][3]:
        if il[0] == "for":
            for st in il[3]:
                if st[0] == "expr" and st[1][0] == "c" and st[1][1] == ("a", S_, "add_rect") and len(st[1][2]) == 3:
                    pairs[il[2]] = st[1][2][2]
    card = ("g", "Cardinal")
    ctx.site(g.where, "unpacked lists are added with their own Cardinal", pairs={show(k): show(v) for k, v in pairs.items()})
    if pairs != {nb: ("a", card, "NORTH"), sb: ("a", card, "SOUTH"), eb: ("a", card, "EAST"), wb: ("a", card, "WEST")}:
        ctx.report(g.where, "unpack-cardinals", "the lists of the module tuple are not added as (trunk, NORTH, SOUTH, EAST, WEST) in this order", lineno=g.node.lineno)
    h = ctx.func(LEGAL, "Model.add_rect")
    ch = canon_function(h, ctx.model)
    table = {}
    for side in ["NORTH", "SOUTH", "EAST", "WEST"]:
        res = peval_block(ch, {("p", 2): ("a", card, side)})
        sets = [st for st in res if st[0] == "set" and st[2][0] == "a" and st[2][2].startswith("add_rect_")]
        table[side] = sets[-1][2][2] if sets else None
    ctx.site(h.where, "Cardinal -> builder table (by partial evaluation)", table=table)
    if table != {"NORTH": "add_rect_north", "SOUTH": "add_rect_south", "EAST": "add_rect_east", "WEST": "add_rect_west"}:
        ctx.report(h.where, f"cardinal-dispatch {table}", "Model.add_rect does not dispatch every Cardinal to the attachment builder of the same side", lineno=h.node.lineno)


def _builder(ctx: Ctx, side: str):
    f = ctx.func(LEGAL, f"ModelModule.add_rect_{side}")
    c = canon_function(f, ctx.model)
    return f, c


@rule("C09", "R2.attachment-mirror", "MIRROR",
      "the four attachment builders are images of each other: x<->y maps north->east and south->west; the reflection of "
      "the axis maps north->south and east->west (attach equation EQ at +-(half trunk + half branch), extent GE/LE on the "
      "other axis)", floor=5)
def r2(ctx: Ctx) -> None:
    b = {s: _builder(ctx, s) for s in ("north", "south", "east", "west")}
    sxy = Sigma(attrs={"x": "y", "y": "x", "w": "h", "h": "w", "N": "E", "E": "N", "S": "W", "W": "S"},
                word_map={"north": "east", "east": "north", "south": "west", "west": "south"})

    class _VarSwap(Sigma):
        """exchange the roles of the projections of the four fresh variables (x <-> y, w <-> h)"""
        def _ap(self, s):
            if isinstance(s, tuple) and len(s) == 4 and s[0] == "proj" and s[3] == 4 and isinstance(s[2], int):
                return ("proj", super()._ap(s[1]), {0: 1, 1: 0, 2: 3, 3: 2}[s[2]], 4)
            return super()._ap(s)
    for src, dst in [("north", "east"), ("south", "west")]:
        f, c = b[src]
        g, d = b[dst]
        ca = deref(c, single_defs(c))
        cb = deref(d, single_defs(d))
        sg = _VarSwap(attrs=sxy.attrs, word_map=sxy.word_map)
        ia = sg.apply(ca)
        # the returned 4-tuple (x, y, w, h) keeps its order: compare the equations only
        ea = sorted((x for x in atoms_of(ia, lambda y: y[0] == "c" and y[1] == ("g", "Equation"))), key=skey)
        eb = sorted((x for x in atoms_of(cb, lambda y: y[0] == "c" and y[1] == ("g", "Equation"))), key=skey)
        la = sorted(atoms_of(ia, lambda y: y[0] == "c" and y[1][0] == "a" and y[1][2] == "append" and y[1][1][0] == "a"), key=skey)
        lb = sorted(atoms_of(cb, lambda y: y[0] == "c" and y[1][0] == "a" and y[1][2] == "append" and y[1][1][0] == "a"), key=skey)
        ctx.site(f.where, f"x<->y image of add_rect_{src} == add_rect_{dst}", equations=len(ea))
        if ea != eb or la != lb or len(ea) != 3:
            dd = diff_paths(tuple(ea), tuple(eb)) + diff_paths(tuple(la), tuple(lb))
            ctx.report(f.where, f"mirror[{src}->{dst}] {dd[0][:200] if dd else ''}", f"add_rect_{src} and add_rect_{dst} are not images of each other under x<->y", lineno=f.node.lineno, differences=dd)
    # reflection: the attach offset changes sign, the extent equations are unchanged
    for src, dst, axis, other in [("north", "south", 1, 0), ("east", "west", 0, 1)]:
        f, c = b[src]
        g, d = b[dst]
        ea = {e[3]: e for e in _equations(c)}
        eb = {e[3]: e for e in _equations(d)}
        ctx.site(f.where, f"reflection: attach offset of {src} is minus that of {dst}; extent equations identical")
        ok = len(ea) == 3 and len(eb) == 3
        if ok:
            att_a = [e for e in ea.values() if e[1] == cmp_("EQ")]
            att_b = [e for e in eb.values() if e[1] == cmp_("EQ")]
            ext_a = sorted(((e[0], e[1], e[2]) for e in ea.values() if e[1] != cmp_("EQ")), key=skey)
            ext_b = sorted(((e[0], e[1], e[2]) for e in eb.values() if e[1] != cmp_("EQ")), key=skey)
            ok = len(att_a) == 1 and len(att_b) == 1 and ext_a == ext_b and len(ext_a) == 2
            if ok:
                coord = ("a", S_, "y" if axis == 1 else "x")
                t0 = ("s", coord, k_num(0))
                off_a = to_poly(att_a[0][2]) - to_poly(t0)
                off_b = to_poly(att_b[0][2]) - to_poly(t0)
                ok = (off_a + off_b).t == {} and att_a[0][0] == att_b[0][0] and len(off_a.t) == 2
        if not ok:
            ctx.report(f.where, f"mirror[{src}->{dst}]", f"add_rect_{src} and add_rect_{dst} are not reflections of each other (attach offset must change sign, extent equations must coincide)",
                       lineno=f.node.lineno)
    # anchor for north: y = trunk.y + trunk.h/2 + h/2 ; trunk.x - trunk.w/2 + w/2 <= x <= trunk.x + trunk.w/2 - w/2
    f, c = b["north"]
    raw = canon_function(f, ctx.model, expand=False)
    eqs = _equations(raw)
    dfs = single_defs(raw)
    xv, yv, wv, hv = [deref(v, dfs) for v in (raw[-1][1][1] if raw[-1][0] == "ret" and raw[-1][1][0] == "tuple" else (None,) * 4)]
    hlf = [v for v, e in single_defs(raw, False).items() if e[0] == "c" and e[1] == ("g", "ExpressionTree") and len(e[2]) == 2 and e[2][1] == ("k", "num", (1, 2))]
    ctx.site(f.where, "north: y == trunk top + h/2; x extent within the trunk's")
    ok = False
    if len(hlf) == 1 and xv is not None:
        H = hlf[0]
        tx, ty, tw, th = [("s", ("a", S_, n), k_num(0)) for n in "xywh"]
        want = {
            (yv, cmp_("EQ"), (to_poly(ty) + to_poly(H) * to_poly(th) + to_poly(H) * to_poly(hv)).to_s()),
            (xv, cmp_("GE"), (to_poly(tx) - to_poly(H) * to_poly(tw) + to_poly(H) * to_poly(wv)).to_s()),
            (xv, cmp_("LE"), (to_poly(tx) + to_poly(H) * to_poly(tw) - to_poly(H) * to_poly(wv)).to_s()),
        }
        ok = {(e[0], e[1], e[2]) for e in eqs} == want
    if not ok:
        ctx.report(f.where, "north-definition", "add_rect_north does not state y = trunk.y + trunk.h/2 + h/2 and trunk.x - trunk.w/2 + w/2 <= x <= trunk.x + trunk.w/2 - w/2",
                   lineno=f.node.lineno)


@rule("C09", "R3.bounds", "CLOSED",
      "per rectangle: four die-bound equations closed under x<->y (dw<->dh) and under low<->high (0 <-> die size, -1/2 <-> "
      "+1/2, GE<->LE); variable bounds from the die; one aspect-ratio equation", floor=3)
def r3(ctx: Ctx) -> None:
    f = ctx.func(LEGAL, "ModelModule._define_vars")
    c = canon_function(f, ctx.model, expand=False)
    eqs = _equations(c)
    bounds = [(e[0], e[1], e[2]) for e in eqs if e[3] is not None and has_str(e[3], "bounds_")]
    ctx.require(len(bounds) == 4, f"_define_vars: expected four Bounds equations, found {len(bounds)}")
    dfs = single_defs(c)
    vars_ = [st for st in c if st[0] == "set" and len(st) == 3 and st[2][0] == "c" and contains(st[2][1], "create_variable")]
    ctx.require(len(vars_) == 4, "_define_vars: four variables expected")
    vx, vy, vw, vh = [st[1] for st in vars_]
    sxy = Sigma(raw_subst={vx: vy, vy: vx, vw: vh, vh: vw}, attrs={"dw": "dh", "dh": "dw"})
    a = sorted(bounds, key=skey)
    bimg = sorted((tuple(sxy.apply(x) for x in e) for e in bounds), key=skey)
    ctx.site(f.where, "die-bound equations closed under x<->y")
    if a != bimg:
        d = diff_paths(tuple(bimg), tuple(a))
        ctx.report(f.where, f"closed[bounds xy] {d[0][:160] if d else ''}", "the x and y die-bound equations are not mirror images", lineno=f.node.lineno, differences=d)
    # low/high: x - w/2 >= 0  <->  x + w/2 <= dw
    ctx.site(f.where, "low bound  c - s/2 >= 0  and  high bound  c + s/2 <= die size  for both axes")
    hlf = [v for v, e in single_defs(c, False).items() if e[0] == "c" and e[1] == ("g", "ExpressionTree") and len(e[2]) == 2 and e[2][1] == ("k", "num", (1, 2))]
    ok = False
    if len(hlf) == 1:
        H = hlf[0]
        gk = ("a", ("p", 0), "gekko")

        def const(v):
            return ("c", ("g", "ExpressionTree"), (gk, v), ())
        want = set()
        for cvar, svar, size in [(vx, vw, ("a", S_, "dw")), (vy, vh, ("a", S_, "dh"))]:
            want.add(((to_poly(cvar) - to_poly(H) * to_poly(svar)).to_s(), cmp_("GE"), const(k_num(0))))
            want.add(((to_poly(cvar) + to_poly(H) * to_poly(svar)).to_s(), cmp_("LE"), const(size)))
        ok = set(bounds) == want
    if not ok:
        ctx.report(f.where, "bounds-definition", "the four die-bound equations are not c - s/2 >= 0 and c + s/2 <= die size on both axes", lineno=f.node.lineno)
    ctx.site(f.where, "variable bounds: centre in [0, die size], size <= die size; initial values from the (x, y, w, h) box")
    ok = True
    for i, (st, ub) in enumerate(zip(vars_, ["dw", "dh", "dw", "dh"])):
        kw = dict(st[2][3])
        for k_, pos in (("value", 1), ("lb", 2), ("ub", 3)):      # create_variable(gekko, value, lb, ub, name)
            if k_ not in kw and len(st[2][2]) > pos:
                kw[k_] = st[2][2][pos]
        if kw.get("ub") != ("a", S_, ub) or kw.get("value") != ("s", ("p", 1), k_num(i)) or (i < 2 and kw.get("lb") != k_num(0)):
            ok = False
    if not ok:
        ctx.report(f.where, "variable-bounds", "a rectangle variable is not created with value = box[i], lb >= 0 and ub = the die size of its own axis", lineno=f.node.lineno)
    shapes = [e for e in eqs if e[3] is not None and has_str(e[3], "ratio")]
    ctx.site(f.where, "one aspect-ratio equation thin(w, h) >= thin(max_ratio, 1)")
    ok = len(shapes) == 1 and shapes[0][1] == cmp_("GE") and contains(shapes[0][0], ("g", "thin")) and contains(shapes[0][0], vw) and contains(shapes[0][0], vh) and \
        contains(shapes[0][2], ("a", S_, "max_ratio"))
    if not ok:
        ctx.report(f.where, "ratio-equation", "the aspect-ratio equation is not thin(w, h) >= thin(max_ratio, 1)", lineno=f.node.lineno)
    t = ctx.func(LEGAL, "thin")
    ct = canon_function(t, ctx.model)
    w_, h_ = ("p", 0), ("p", 1)
    want = (to_poly(w_) * to_poly(h_) * to_poly(("inv", (to_poly(w_) * to_poly(w_) + to_poly(h_) * to_poly(h_)).to_s()))).to_s()
    ctx.site(t.where, "thin(w, h) == w*h / (w^2 + h^2) (symmetric in w and h)")
    if ct != (("ret", want),):
        ctx.report(t.where, "thin-definition", "thin(w, h) is not w*h / (w*w + h*h)", lineno=t.node.lineno)


@rule("C09", "R4.coverage", "LOOP-COVER/AXIS",
      "an Area equation for every module; for each of the four side lists the branches are sorted along the side's own "
      "axis and every consecutive pair gets 'left + half <= right - half' on that axis; a smooth no-overlap equation for "
      "every pair of rectangles of every two different modules", floor=6)
def r4(ctx: Ctx) -> None:
    f = ctx.func(LEGAL, "Model.first_build_model")
    c = canon_function(f, ctx.model)
    cd = deref(c, single_defs(c))
    al = ("a", S_, "al")
    n_mod = ("c", ("g", "len"), (al,), ())
    loops = [lp for lp in cd if lp[0] == "for" and lp[2] == ("c", ("g", "range"), (n_mod,), ())]
    ctx.require(len(loops) >= 4, "first_build_model: loops over the modules not found")
    ctx.site(f.where, "Area: area of every module >= its required area")
    ok = False
    for lp in loops:
        m = lp[1]
        for e in atoms_of(lp[3], lambda x: x[0] == "c" and x[1] == ("g", "Equation")):
            if e[2][0] == ("a", ("s", ("a", S_, "M"), m), "area") and e[2][1] == cmp_("GE") and contains(e[2][2], ("s", al, m)):
                ok = True
    if not ok:
        ctx.report(f.where, "area-coverage", "no 'module area >= required area' equation for every module", lineno=f.node.lineno)
    # intra-side ordering
    raw_loops = [lp for lp in c if lp[0] == "for" and lp[2] == ("c", ("g", "range"), (n_mod,), ())]
    intra = [lp for lp in raw_loops if contains(lp[3], "add_codependent_constraint")]
    ctx.require(len(intra) == 1, "first_build_model: intra-module ordering loop not found")
    m = intra[0][1]
    body = intra[0][3]
    dfs = single_defs(body)
    want_axis = {"N": ("x", "w"), "S": ("x", "w"), "E": ("y", "h"), "W": ("y", "h")}
    seen = {}
    M = ("s", ("a", S_, "M"), m)
    for side, (cax, sax) in want_axis.items():
        lst = ("a", M, side)
        sort_ok = any(st[0] == "expr" and st[1][0] == "c" and st[1][1] == ("a", deref_var(lst, dfs, body), "sort") and
                      contains(dict(st[1][3]).get("key", ()), ("a", M, cax)) for st in body)
        pair_ok = False
        for il in body:
            if il[0] == "for" and il[2][0] == "c" and il[2][1] == ("g", "range") and contains(il[2], deref_var(lst, dfs, body)):
                ib = deref(deref(il[3], single_defs(il[3])), single_defs(c))
                for e in set(atoms_of(ib, lambda x: x[0] == "c" and x[1] == ("g", "Equation"))):
                    i = il[1]
                    lv = deref_var(lst, dfs, body)
                    a_, b_ = ("s", lv, i), ("s", lv, (to_poly(i) + Poly.const(1)).to_s())
                    hl = [x for x in atoms_of(e, lambda y: y[0] == "c" and y[1] == ("g", "ExpressionTree") and len(y[2]) == 2 and y[2][1] == ("k", "num", (1, 2)))]
                    if not hl:
                        continue
                    H = hl[0]
                    lhs = (to_poly(("s", ("a", M, cax), a_)) + to_poly(H) * to_poly(("s", ("a", M, sax), a_))).to_s()
                    rhs = (to_poly(("s", ("a", M, cax), b_)) - to_poly(H) * to_poly(("s", ("a", M, sax), b_))).to_s()
                    if e[2][0] == lhs and e[2][1] == cmp_("LE") and e[2][2] == rhs and il[2] == ("c", ("g", "range"), ((to_poly(("c", ("g", "len"), (lv,), ())) - Poly.const(1)).to_s(),), ()):
                        pair_ok = True
        seen[side] = (sort_ok, pair_ok)
        ctx.site(f.where, f"side {side}: sorted by {cax}, consecutive pairs separated on {cax} with {sax}", sorted=sort_ok, pairs=pair_ok)
        if not (sort_ok and pair_ok):
            ctx.report(f.where, f"intra-order {side} sorted={sort_ok} pairs={pair_ok}",
                       f"the branches on side {side} are not sorted by {cax} and constrained pairwise '{cax}_i + {sax}_i/2 <= {cax}_j - {sax}_j/2' for all consecutive pairs",
                       lineno=f.node.lineno)
    # inter-module
    ctx.site(f.where, "Inter: smooth no-overlap for all m < n and all rectangle pairs; x/w term and y/h term mirror")
    inter = [lp for lp in raw_loops if contains(lp[3], k_str("Inter"))]
    ok = False
    if len(inter) == 1:
        m_ = inter[0][1]
        l2 = [x for x in inter[0][3] if x[0] == "for"]
        if len(l2) == 1 and l2[0][2] == ("c", ("g", "range"), ((to_poly(m_) + Poly.const(1)).to_s(), n_mod), ()):
            n_ = l2[0][1]
            l3 = [x for x in l2[0][3] if x[0] == "for"]
            if len(l3) == 1 and l3[0][2] == ("c", ("g", "range"), (("a", ("s", ("a", S_, "M"), m_), "c"),), ()):
                i_ = l3[0][1]
                l4 = [x for x in l3[0][3] if x[0] == "for"]
                if len(l4) == 1 and l4[0][2] == ("c", ("g", "range"), (("a", ("s", ("a", S_, "M"), n_), "c"),), ()):
                    j_ = l4[0][1]
                    ib = l4[0][3]
                    d4 = single_defs(ib)
                    eqs = sorted(set(atoms_of(deref(ib, d4), lambda x: x[0] == "c" and x[1] == ("g", "Equation"))), key=skey)
                    if len(eqs) == 1 and eqs[0][2][1] == cmp_("GE") and eqs[0][2][0][0] == "c" and eqs[0][2][0][1] == ("g", "smax"):
                        t1, t2 = eqs[0][2][0][2][0], eqs[0][2][0][2][1]
                        sg = Sigma(attrs={"x": "y", "y": "x", "w": "h", "h": "w"})
                        if sg.apply(t1) == t2 and contains(t1, ("s", ("s", ("a", S_, "x"), m_), i_)) and contains(t1, ("s", ("s", ("a", S_, "w"), n_), j_)):
                            ok = True
    if not ok:
        ctx.report(f.where, "inter-coverage", "the no-overlap equations do not cover all rectangle pairs of all module pairs m < n with mirrored x/w and y/h terms",
                   lineno=f.node.lineno)
    sm = ctx.func(LEGAL, "smax")
    csm = canon_function(sm, ctx.model)
    ctx.site(sm.where, "smax(x, y, tau) == (x + y + sqrt((x - y)^2 + 4 tau^2)) / 2, symmetric in x and y")
    csd = deref(csm, single_defs(csm))
    sw = Sigma(raw_subst={("p", 0): ("p", 1), ("p", 1): ("p", 0)})
    rets = [st for st in csd if st[0] == "ret"]

    def numbers(x):
        """ExpressionTree(gekko, k) is the number k; e ** 2 is e * e"""
        if isinstance(x, tuple):
            if len(x) == 4 and x[0] == "c" and x[1] == ("g", "ExpressionTree") and len(x[2]) == 2 and x[2][1][:2] == ("k", "num") and not x[3]:
                return x[2][1]
            y = tuple(numbers(z) for z in x)
            if y and y[0] == "pow" and len(y) == 3 and y[2] == k_num(2):
                return (to_poly(y[1]) * to_poly(y[1])).to_s()
            return y
        return x
    X, Y, TAU = ("p", 0), ("p", 1), ("p", 2)
    diff_ = to_poly(X) - to_poly(Y)
    inner = (diff_ * diff_ + to_poly(k_num(4)) * to_poly(TAU) * to_poly(TAU)).to_s()
    half_ = to_poly(k_num(__import__("fractions").Fraction(1, 2)))
    want_smax = (half_ * (to_poly(X) + to_poly(Y) + to_poly(("c", ("g", "expr_sqrt"), (inner,), ())))).to_s()
    got_smax = None
    if len(rets) == 1 and len(csd) == 1:
        got_smax = numbers(rets[0][1])
        for _ in range(3):
            got_smax = Sigma(raw_subst={}).apply(numbers(got_smax))
    if got_smax != want_smax:
        ctx.report(sm.where, "smax-definition", "smax is not the smoothed maximum (x + y + sqrt((x-y)^2 + 4 tau^2)) / 2", lineno=sm.node.lineno)


def deref_var(lst: S, dfs: dict, body) -> S:
    """the local that aliases self.M[m].<side> (nid = self.M[m].N) or the attribute itself"""
    for v, e in dfs.items():
        if e == lst:
            return v
    for st in body:
        if st[0] == "set" and len(st) == 3 and st[2] == lst:
            return st[1]
    return lst


@rule("C09", "R6.hard-fixed-tables", "REPR-INDEP/FRAME",
      "fixing tables: trunk position only for fixed modules; sizes for hard modules; a branch of a movable hard module is "
      "stored as an offset from its trunk and Model.fix adds the trunk position exactly when the trunk is not fixed; the "
      "decision never depends on whether a number is an int or a float", floor=4)
def r6(ctx: Ctx) -> None:
    fx = ctx.func(LEGAL, "Model.fix")
    tests = [n for n in walk_own(fx.node) if isinstance(n, ast.Call) and call_name(n) == "isinstance" and len(n.args) == 2 and
             any(isinstance(x, ast.Name) and x.id in ("float", "int") for x in ast.walk(n.args[1]))]
    ctx.site(fx.where, "no int/float representation test decides the equations", tests=len(tests))
    for t in tests:
        ctx.report(fx.where, f"repr-dependent {ast.unparse(t)}", "Model.fix branches on whether a coordinate is a float: '1' and '1.0' in the document give different "
                   "constraint systems (a movable hard module becomes fixed, or its branches are misplaced)", lineno=t.lineno)
    c = canon_function(fx, ctx.model)
    cd = deref(c, single_defs(c))
    truthy = []
    for cnd in atoms_of(c, lambda x: x[0] == "if"):
        conj0 = set(cnd[1][1]) if cnd[1][0] in ("and", "or") else {cnd[1]}
        for t in conj0:
            u = t[1] if t[0] == "not" else t
            if u[0] == "c" and u[1] == ("g", "optional_get"):
                truthy.append(u)
    ctx.site(fx.where, "table values are tested with 'is not None', never by truthiness", truthiness_tests=len(truthy))
    for u in truthy:
        ctx.report(fx.where, f"truthiness-test {show(u)}", "Model.fix tests a coordinate/offset by truthiness: the value 0 (a branch centred on its trunk, a rectangle at the origin) "
                   "is treated as absent", lineno=fx.node.lineno)
    loops = [lp for lp in c if lp[0] == "for"]
    ctx.require(len(loops) == 1, "Model.fix: loop over the rectangles not found")
    i = loops[0][1]
    body = loops[0][3]
    dfs = single_defs(body)
    xl = ("p", 1)
    trunk_free = ("cmp", "is", ("c", ("g", "optional_get"), (xl, k_num(0)), ()), K_NONE)
    trunk_fixed = ("cmp", "isnot", ("c", ("g", "optional_get"), (xl, k_num(0)), ()), K_NONE)
    adds = [st for st in atoms_of(body, lambda x: x[0] == "if" and any(y[0] == "aug" and y[1] == "Add" and contains(y[3], ("s", ("a", ("s", ("a", S_, "M"), ("p", 0)), "x"), k_num(0))) for y in x[2]))]
    ctx.site(fx.where, "trunk position added to a branch exactly when the trunk is not fixed")
    ok = False
    for a in adds:
        cond = deref(a[1], dfs)
        conj = set(cond[1]) if cond[0] == "and" else {cond}
        xget = ("c", ("g", "optional_get"), (xl, i), ())
        allowed = {trunk_free, mk_not(trunk_fixed), mk_not(mk_eq(i, k_num(0))), ("cmp", "isnot", xget, K_NONE)}
        if (trunk_free in conj or mk_not(trunk_fixed) in conj) and mk_not(mk_eq(i, k_num(0))) in conj and conj <= allowed:
            ys = [y for y in a[2] if y[0] == "aug" and contains(y[3], ("s", ("a", ("s", ("a", S_, "M"), ("p", 0)), "y"), k_num(0)))]
            ok = len(ys) == 1
    if not ok:
        ctx.report(fx.where, "branch-frame", "Model.fix does not add the trunk's (x, y) to a branch offset exactly for i != 0 with a non-fixed trunk", lineno=fx.node.lineno)
    u = ctx.func(LEGAL, "netlist_to_utils")
    cu = canon_function(u, ctx.model)
    ctx.site(u.where, "branch entries of the position tables: absolute for fixed modules, trunk-relative for movable hard modules")
    sets = [st for st in atoms_of(cu, lambda x: x[0] == "set" and len(x) == 3 and x[1][0] == "s" and x[1][1][0] == "s" and x[2][0] == "ite")]
    okx = oky = False
    for st in sets:
        cond, a, b_ = st[2][1], st[2][2], st[2][3]
        if cond[0] == "a" and cond[2] == "is_fixed":
            rel = to_poly(b_) - to_poly(a)
            if len(rel.t) == 1:
                (mono, coef), = rel.t.items()
                if coef == -1 and len(mono) == 1 and mono[0][0][0] == "s" and mono[0][0][1][0] == "s" and mono[0][0][1][2] == k_num(0):
                    if mono[0][0][2] == k_num(0):
                        okx = True
                    if mono[0][0][2] == k_num(1):
                        oky = True
    if not (okx and oky):
        ctx.report(u.where, f"branch-offsets x={okx} y={oky}", "netlist_to_utils does not store the branches of a movable hard module relative to its trunk "
                   "(x - trunk x, y - trunk y) and those of a fixed module absolutely", lineno=u.node.lineno)
    ctx.site(u.where, "trunk position fixed only for fixed modules; sizes fixed for every hard module")
    fx_if = [st for st in atoms_of(cu, lambda x: x[0] == "if" and x[1][0] == "a" and x[1][2] == "is_fixed")]
    hd_if = [st for st in atoms_of(cu, lambda x: x[0] == "if" and x[1][0] == "a" and x[1][2] == "is_hard")]
    ok = any(any(y[0] == "set" and y[1][0] == "s" and y[1][2] == k_num(0) and y[2] == ("s", ("s", y[2][1][1], k_num(0)), k_num(0)) for y in st[2]) for st in fx_if if st[2]) and \
        any(any(y[0] == "set" and y[1][0] == "s" and y[1][2] == k_num(0) and y[2][0] == "s" and y[2][2] == k_num(2) for y in st[2]) for st in hd_if)
    if not ok:
        ctx.report(u.where, "fixing-tables", "the trunk position is not fixed exactly for fixed modules / the trunk size not for hard modules", lineno=u.node.lineno)


@rule("C09", "R7.comparison-dispatch", "SIBLING",
      "the five places that interpret an equation's comparison agree: for LE / GE / EQ the operator, the side of the slack "
      "and the hard/soft split are the same in add_equation, Equation.apply_equation and Equation.is_equation_met; "
      "surplus / slack measure the violated / satisfied side", floor=5)
def r7(ctx: Ctx) -> None:
    fa = ctx.func(ETREE, "add_equation")
    fb = ctx.func(ETREE, "Equation.apply_equation")
    ca = canon_function(fa, ctx.model)
    cb = canon_function(fb, ctx.model)

    def table(c, cmpvar, hardvar):
        out = {}
        for name in ("LE", "GE", "EQ"):
            for hard in (True, False):
                env = {cmpvar: cmp_(name), hardvar: K_TRUE if hard else K_FALSE}
                res = peval_block(c, env)
                posted = []
                for e in atoms_of(res, lambda x: x[0] == "c" and x[1][0] == "a" and x[1][2] == "Equation" and len(x[2]) == 1):
                    posted.append(e[2][0])
                out[(name, hard)] = sorted(set(posted), key=skey)
        return out
    ta = table(ca, ("p", 2), ("p", 5))
    tb = table(deref(cb, single_defs(cb)), ("a", S_, "cmp"), ("a", S_, "hard"))
    ren = Sigma(raw_subst={})
    ctx.site(fa.where, "add_equation and apply_equation post the same relation for every (comparison, hard) pair")
    # compare shapes modulo the names of the two sides / epsilon: count and kind of relations
    def shape(rel):
        if rel[0] == "not" and rel[1][0] == "lt0":
            return ("le", len(to_poly(rel[1][1]).t))
        if rel[0] == "lt0":
            return ("lt", len(to_poly(rel[1]).t))
        if rel[0] == "eq0":
            return ("eq", len(to_poly(rel[1]).t))
        return ("other", 0)
    bad = []
    for k in ta:
        if [shape(r) for r in ta[k]] != [shape(r) for r in tb[k]] or not ta[k]:
            bad.append(k)
    if bad:
        ctx.report(fa.where, f"dispatch-siblings {bad}", "add_equation and Equation.apply_equation post different relations for the same comparison kind", lineno=fa.node.lineno)
    # the relation itself: LE -> lhs <= rhs (+ e when soft); GE -> lhs >= rhs (- e); EQ -> == (hard) or both (soft)
    want_n = {("LE", True): 1, ("LE", False): 1, ("GE", True): 1, ("GE", False): 1, ("EQ", True): 1, ("EQ", False): 2}
    for k, n in want_n.items():
        ctx.site(fa.where, f"{k[0]} {'hard' if k[1] else 'soft'}: relation(s) posted", relations=[show(r)[:80] for r in ta[k]])
        rels = ta[k]
        ok = len(rels) == n
        if ok:
            if k[0] == "EQ" and k[1]:
                ok = rels[0][0] == "eq0"
            elif k[0] == "EQ":
                ok = all(r[0] == "not" and r[1][0] == "lt0" for r in rels) and len({skey(r) for r in rels}) == 2
            else:
                r = rels[0]
                ok = r[0] == "not" and r[1][0] == "lt0"
                if ok:
                    p = to_poly(r[1][1])
                    # a <= b  ==  not (b - a < 0): coefficient of lhs_expr is -1 for LE, +1 for GE
                    # lhs_expr / rhs_expr are single-definition locals: look for the variable fed from 'lhs'
                    n_terms = len(p.t)
                    ok = n_terms == (2 if k[1] else 3)
        if not ok:
            ctx.report(fa.where, f"dispatch-{k[0]}-{'hard' if k[1] else 'soft'}", f"add_equation posts the wrong relation for {k[0]} ({'hard' if k[1] else 'with slack'})", lineno=fa.node.lineno)
    # orientation: LE hard must be not(rhs - lhs < 0) with lhs from parameter 'lhs'
    raw = canon_function(fa, ctx.model, expand=False)
    ta = table(raw, ("p", 2), ("p", 5))
    dfs = single_defs(raw, False)
    lhs_v = [v for v, e in dfs.items() if contains(e, ("p", 1)) and contains(e, "get_gekko_expression")]
    rhs_v = [v for v, e in dfs.items() if contains(e, ("p", 3)) and contains(e, "get_gekko_expression")]
    ctx.site(fa.where, "orientation: LE is lhs <= rhs, GE is lhs >= rhs")
    ok = False
    if len(lhs_v) == 1 and len(rhs_v) == 1:
        le = ta[("LE", True)]
        ge = ta[("GE", True)]
        if le and ge:
            ok = le[0] == mk_not(mk_lt(rhs_v[0], lhs_v[0])) and ge[0] == mk_not(mk_lt(lhs_v[0], rhs_v[0]))
    if not ok:
        ctx.report(fa.where, "dispatch-orientation", "add_equation does not post lhs <= rhs for LE and lhs >= rhs for GE", lineno=fa.node.lineno)
    fm = ctx.func(ETREE, "Equation.is_equation_met")
    cm = canon_function(fm, ctx.model)
    cmd = deref(cm, single_defs(cm))
    L = ("c", ("a", ("a", S_, "lhs"), "evaluate"), (), ())
    R = ("c", ("a", ("a", S_, "rhs"), "evaluate"), (), ())
    ctx.site(fm.where, "is_equation_met: LE lhs <= rhs (+eps), GE lhs >= rhs (-eps), EQ |lhs - rhs| small; slack only when not hard")
    ok = True
    for name in ("LE", "GE", "EQ"):
        for hard in (True, False):
            res = peval_block(cmd, {("a", S_, "cmp"): cmp_(name), ("a", S_, "hard"): K_TRUE if hard else K_FALSE})
            rets = [st for st in res if st[0] == "ret"]
            if len(rets) != 1:
                ok = False
                continue
            e = rets[0][1]
            eps_in = contains(e, ("c", ("a", ("g", "epsilon"), "evaluate"), (), ()))
            if eps_in == hard:
                ok = False
            if name == "LE":
                # lhs <= rhs + tol  ->  not (rhs + tol - lhs < 0): coefficient of L is -1
                ok = ok and e[0] == "not" and e[1][0] == "lt0" and to_poly(e[1][1]).t.get(((L, 1),)) == -1 and to_poly(e[1][1]).t.get(((R, 1),)) == 1
            if name == "GE":
                ok = ok and e[0] == "not" and e[1][0] == "lt0" and to_poly(e[1][1]).t.get(((L, 1),)) == 1 and to_poly(e[1][1]).t.get(((R, 1),)) == -1
    if not ok:
        ctx.report(fm.where, "met-dispatch", "is_equation_met does not test lhs <= rhs for LE / lhs >= rhs for GE with the slack exactly for soft equations", lineno=fm.node.lineno)
    fs = ctx.func(ETREE, "Equation.surplus")
    cs = canon_function(fs, ctx.model)
    ctx.site(fs.where, "surplus: LE max(0, lhs - rhs); GE max(0, rhs - lhs); EQ |rhs - lhs|")
    want = {"LE": ("c", ("g", "max"), tuple(sorted([k_num(0), (to_poly(L) - to_poly(R)).to_s()], key=skey)), ()),
            "GE": ("c", ("g", "max"), tuple(sorted([k_num(0), (to_poly(R) - to_poly(L)).to_s()], key=skey)), ())}
    ok = True
    for name, w in want.items():
        res = peval_block(cs, {("a", S_, "cmp"): cmp_(name)})
        rets = [st for st in res if st[0] == "ret"]
        if len(rets) != 1 or rets[0][1] != w:
            ok = False
    if not ok:
        ctx.report(fs.where, "surplus-dispatch", "Equation.surplus does not measure the violated side (LE: lhs - rhs, GE: rhs - lhs)", lineno=fs.node.lineno)



@rule("C09", "R8.side-recognition", "SHARED(C06)",
      "the side each branch is filed under comes from Rectangle.find_location: tolerance-aware abutment on exactly one side "
      "within that side's extent -- the C06 rule R6 evaluated for the legaliser's input", floor=4)
def shared_sides(ctx: Ctx) -> None:
    from . import C06 as _c06
    from .common import support
    support(ctx, [_c06.r6], {"Rectangle.find_location"})


@rule("C09", "R10.branch-numbering", "TUPLE/ORDER",
      "the fixing tables number the branches of a hard module in the order of the module tuple's side lists (north, south, east, "
      "west: slots 1..4, each list in its own order), starting at 1 after the trunk -- the order in which Model creates the "
      "rectangles -- so that entry i of the tables describes rectangle i of the model", floor=1)
def r10(ctx: Ctx) -> None:
    f = ctx.func(LEGAL, "netlist_to_utils")
    c = canon_function(f, ctx.model)
    ok = False
    n = 0
    for lp in atoms_of(c, lambda x: x[0] == "for" and len(x) == 5 and x[2] == ("c", ("g", "range"), (k_num(1), k_num(5)), ())):
        q = lp[1]
        inner = atoms_of(lp[3], lambda x: x[0] == "for" and len(x) == 5 and x[2][:1] == ("s",) and x[2][2] == q)
        if len(inner) != 1:
            continue
        n += 1
        tup = inner[0][2][1]
        body = inner[0][3]
        stores = [st for st in body if st[0] == "set" and len(st) == 3 and st[1][0] == "s"]
        idx = {st[1][2] for st in stores}
        incs = [st for st in body if st[0] == "aug" and st[1] == "Add" and st[3] == k_num(1)]
        if len(idx) == 1 and len(incs) == 1 and incs[0][2] in idx and len(stores) == 4:
            counter = incs[0][2]
            # the counter starts at 1 right before the loop over the slots and is advanced nowhere else
            inits = [st for st in atoms_of(c, lambda x: x[0] == "set" and len(x) == 3 and x[1] == counter)]
            other_incs = [st for st in atoms_of(c, lambda x: x[0] == "aug" and len(x) == 4 and x[2] == counter)]
            # the tuple whose slots are walked is the module tuple that is appended to the list handed to the model
            appended = atoms_of(c, lambda x: x[0] == "expr" and x[1][0] == "c" and x[1][1][0] == "a" and x[1][1][2] == "append" and x[1][2] == (tup,))
            ok = len(inits) == 1 and inits[0][2] == k_num(1) and len(other_incs) == 1 and bool(appended)
    # the same numbering written with enumerate(chain(t[1], t[2], t[3], t[4]), start=1)
    for lp in atoms_of(c, lambda x: x[0] == "for" and len(x) == 5 and x[1][:1] == ("tuple",) and len(x[1][1]) == 2 and x[2][:2] == ("c", ("g", "enumerate"))):
        it = lp[2]
        start = dict(it[3]).get("start", it[2][1] if len(it[2]) > 1 else k_num(0))
        src = it[2][0] if it[2] else None
        if start == k_num(1) and isinstance(src, tuple) and src[:2] in (("c", ("g", "chain")), ("c", ("a", ("g", "itertools"), "chain"))) and len(src[2]) == 4:
            tups = {a[1] for a in src[2] if a[0] == "s"}
            if len(tups) == 1 and [a[2] for a in src[2]] == [k_num(1), k_num(2), k_num(3), k_num(4)]:
                tup = tups.pop()
                i = lp[1][1][0]
                stores = [st for st in lp[3] if st[0] == "set" and len(st) == 3 and st[1][0] == "s"]
                appended = atoms_of(c, lambda x: x[0] == "expr" and x[1][0] == "c" and x[1][1][0] == "a" and x[1][1][2] == "append" and x[1][2] == (tup,))
                if len(stores) == 4 and {st[1][2] for st in stores} == {i} and appended:
                    n += 1
                    ok = True
    ctx.site(f.where, "table entries numbered by walking slots 1..4 of the module tuple with one counter from 1", slot_loops=n)
    if not ok:
        ctx.report(f.where, "branch-numbering", "the fixing tables do not number the branches by walking the side lists of the module tuple (slots 1..4) with one counter "
                   "starting at 1: entry i then describes another rectangle than rectangle i of the model (a branch is pinned to another branch's offset and size)",
                   lineno=f.node.lineno)


@rule("C09", "R12.optional-tables-by-presence", "PRESENCE-NOT-TRUTH",
      "the optional per-rectangle tables (fixed positions, offsets of a branch from its trunk) are read by presence, not by "
      "truth: optional_get answers None exactly when the table is absent or has no entry for the index, and hands back the "
      "stored number otherwise -- no 'or', no truthiness test of the value; an offset of exactly 0.0 (a branch centred on its "
      "trunk) is a value like any other (seeded change C09-9: 'opt.get(index) or None' lets centred branches slide)", floor=1)
def r12_optional_get(ctx: Ctx) -> None:
    from .common import LEGAL
    f = ctx.func(LEGAL, "optional_get")
    ctx.site(f.where, "optional table read by presence (comparisons with None / membership only)")
    for n in walk_own(f.node):
        if isinstance(n, ast.BoolOp):
            ctx.report(f.where, f"value-by-truth {norm_stmt(n)[:50]}", f"optional_get combines the stored value with '{type(n.op).__name__.lower()}' "
                       f"('{ast.unparse(n)[:60]}'): a stored 0 / 0.0 is answered as if nothing were stored", lineno=n.lineno)
        tests = [n.test] if isinstance(n, (ast.If, ast.IfExp, ast.While)) else []
        for t in tests:
            for leaf in ([t] if not isinstance(t, ast.BoolOp) else t.values):
                if isinstance(leaf, ast.UnaryOp) and isinstance(leaf.op, ast.Not):
                    leaf = leaf.operand
                if not isinstance(leaf, (ast.Compare, ast.Constant)) and not (isinstance(leaf, ast.Call) and isinstance(leaf.func, ast.Name) and leaf.func.id == "isinstance"):
                    ctx.report(f.where, f"value-by-truth {norm_stmt(leaf)[:50]}", f"optional_get tests the truth of '{ast.unparse(leaf)[:60]}': a stored 0 / 0.0 "
                               "is answered as if nothing were stored", lineno=t.lineno)
