"""C06 -- single-trunk orthogon recognition (create_stog / Rectangle.find_location)."""
from __future__ import annotations

import ast

from framelint.core import rule, Ctx
from framelint.srcmodel import walk_own, AnalysisError
from framelint.canon import (canon_function, show, S, to_poly, mk_lt, mk_and, mk_not, k_num, contains, skey, Sigma,
                             mk_call, atoms_of, K_NONE)
from framelint.peval import paths
from framelint.cfg import EXIT, ENTRY
from .common import resolve_local, GEOM, MODULE, NETLIST, sigma_xy, sigma_dual, call_name, norm_stmt, is_eps_atom

LOC = ("a", ("g", "Rectangle"), "StogLocation")
from framelint.canon import canon_function as _canon_function_expanded

def canon_function(fi, model=None, opts=None):   # rules of this file match shapes: look through every local
    return _canon_function_expanded(fi, model, opts, expand=True)



def loc(name: str) -> S:
    return ("a", LOC, name)


NO = loc("NO_POLYGON")
DIRS = ["NORTH", "SOUTH", "EAST", "WEST"]


def _find_location_table(ctx: Ctx):
    fi = ctx.func(GEOM, "Rectangle.find_location")
    c = canon_function(fi, ctx.model)
    ps = paths(c)
    table: dict[str, tuple[S, S, tuple]] = {}
    others = []
    for lits, out in ps:
        d = None
        if isinstance(out, tuple) and out and out[0] == "ite" and out[3] == NO and out[2] in [loc(x) for x in DIRS]:
            d, ext = out[2][2], out[1]
        elif out in [loc(x) for x in DIRS]:
            d, ext = out[2], ("k", "bool", True)
        if d is not None:
            if d in table:
                others.append((lits, ("duplicate-side", out)))
                continue
            pos = [l for l in lits if not (isinstance(l, tuple) and l and l[0] == "not")]
            table[d] = (pos, ext, lits)
        else:
            others.append((lits, out))
    return fi, table, others, ps


@rule("C06", "R6.find-location", "CCP-TABLE/MIRROR",
      "find_location tabulated by path-sensitive constant propagation: the overlap pre-check dominates every verdict; "
      "for each side D there is one abutment test (tolerance-aware equality of the facing borders) and one extent "
      "test (+-epsilon); the table is closed under x<->y (N<->E, S<->W) and low<->high (N<->S, E<->W); every other "
      "path yields NO_POLYGON", floor=8)
def r6(ctx: Ctx) -> None:
    fi, table, others, ps = _find_location_table(ctx)
    ctx.require(len(ps) >= 6, "find_location: fewer paths than confirmed (6)")
    ov = mk_lt(("c", ("a", ("g", "Rectangle"), "area_epsilon"), (), ()), ("c", ("a", ("self",), "area_overlap"), (("p", 0),), ()))
    ctx.site(fi.where, "overlap pre-check dominates all side verdicts", paths=len(ps))
    pre = [p for p in ps if p[0] == (ov,) and p[1] == NO]
    if len(pre) != 1:
        ctx.report(fi.where, "no-overlap-precheck", "find_location does not first refuse rectangles that overlap the trunk "
                   "(area_overlap > area epsilon => NO_POLYGON)", lineno=fi.node.lineno)
    for d in DIRS:
        ctx.site(fi.where, f"side {d}: one abutment literal, one extent test, reached only without overlap")
        if d not in table:
            ctx.report(fi.where, f"side-missing {d}", f"find_location never answers {d}", lineno=fi.node.lineno)
            continue
        pos, ext, lits = table[d]
        if mk_not(ov) not in lits:
            ctx.report(fi.where, f"side-without-precheck {d}", f"{d} can be answered for a rectangle that overlaps the trunk",
                       lineno=fi.node.lineno)
    for lits, out in others:
        ctx.site(fi.where, "non-side path yields NO_POLYGON", outcome=show(out))
        if out != NO:
            ctx.report(fi.where, f"stray-outcome {show(out)}", "a path of find_location that identifies no side does not answer NO_POLYGON",
                       lineno=fi.node.lineno)
    if set(table) != set(DIRS):
        return
    # anchor: NORTH = trunk's top border equals branch's bottom border; extent on x within +-eps
    eps = ("c", ("a", ("g", "Rectangle"), "distance_epsilon"), (), ())

    def bb(obj, corner, axis):
        return ("a", ("a", ("a", obj, "bounding_box"), corner), axis)
    T, B = ("self",), ("p", 0)
    abut_n = mk_call(("g", "almost_eq"), [bb(T, "ur", "y"), bb(B, "ll", "y"), eps], [])
    ext_n = mk_and([mk_lt((to_poly(bb(T, "ll", "x")) - to_poly(eps)).to_s(), bb(B, "ll", "x")),
                    mk_lt(bb(B, "ur", "x"), (to_poly(bb(T, "ur", "x")) + to_poly(eps)).to_s())])
    ctx.site(fi.where, "NORTH: trunk.top ~= branch.bottom and branch x-extent within trunk x-extent +- eps")
    pos, ext, _ = table["NORTH"]
    if pos != [abut_n] or ext != ext_n:
        ctx.report(fi.where, "north-def " + "; ".join(show(x) for x in pos) + " / " + show(ext),
                   "NORTH is not 'almost_eq(trunk.ur.y, r.ll.y, eps) and r.ll.x > trunk.ll.x - eps and r.ur.x < trunk.ur.x + eps'",
                   lineno=fi.node.lineno)
    enum_xy = {"NORTH": "EAST", "EAST": "NORTH", "SOUTH": "WEST", "WEST": "SOUTH"}
    enum_du = {"NORTH": "SOUTH", "SOUTH": "NORTH", "EAST": "WEST", "WEST": "EAST"}
    for sname, sg, emap in [("sigma_xy", sigma_xy(), enum_xy), ("sigma_dual", sigma_dual(), enum_du)]:
        for d in DIRS:
            pos, ext, _ = table[d]
            pos2, ext2, _ = table[emap[d]]
            ctx.site(fi.where, f"{sname}: tests of {d} map onto tests of {emap[d]}")
            a = (tuple(sorted((sg.apply(x) for x in pos), key=skey)), sg.apply(ext))
            b = (tuple(sorted(pos2, key=skey)), ext2)
            if a != b:
                ctx.report(fi.where, f"side-mirror[{sname}] {d}->{emap[d]}: {show(a[0][0]) if a[0] else ''} / {show(a[1])}",
                           f"the tests for {d} and {emap[d]} are not images of each other under {sname}",
                           lineno=fi.node.lineno, image=[show(x) for x in a[0]] + [show(a[1])],
                           actual=[show(x) for x in b[0]] + [show(b[1])])


def _elem_vars(fn: ast.FunctionDef, coll: str) -> set[str]:
    """Names bound to elements of the collection parameter ``coll``."""
    out: set[str] = set()

    def from_target(t: ast.expr, it: ast.expr) -> None:
        if isinstance(it, ast.Name) and it.id == coll and isinstance(t, ast.Name):
            out.add(t.id)
        if isinstance(it, ast.Call) and call_name(it) == "enumerate" and it.args and isinstance(it.args[0], ast.Name) \
                and it.args[0].id == coll and isinstance(t, ast.Tuple) and len(t.elts) == 2 and isinstance(t.elts[1], ast.Name):
            out.add(t.elts[1].id)
    for n in walk_own(fn):
        if isinstance(n, (ast.For, ast.comprehension)):
            from_target(n.target, n.iter)
    return out


@rule("C06", "R1.identity-not-equality", "IDENT-EQ",
      "inside create_stog an element of the rectangle list is never excluded from a test by structural equality "
      "(Rectangle.__eq__ compares centre/shape/region): a repeated rectangle would be excused; exclusion must be by "
      "identity or by position", floor=1)
def r1(ctx: Ctx) -> None:
    fi = ctx.func(GEOM, "create_stog")
    coll = fi.params()[0]
    ev = _elem_vars(fi.node, coll)
    ctx.require(len(ev) >= 2, "create_stog: element variables not found")
    eq_cls = "__eq__" in ctx.model.cls(GEOM, "Rectangle").methods
    n_cmp = 0
    for n in walk_own(fi.node):
        if isinstance(n, ast.Compare) and len(n.ops) == 1 and isinstance(n.left, ast.Name) \
                and isinstance(n.comparators[0], ast.Name) and n.left.id in ev and n.comparators[0].id in ev:
            n_cmp += 1
            ctx.site(fi.where, "comparison between two elements of the list", test=ast.unparse(n), structural_eq=eq_cls)
            if isinstance(n.ops[0], (ast.Eq, ast.NotEq)) and eq_cls:
                ctx.report(fi.where, f"elem-compare {type(n.ops[0]).__name__}",
                           "an element of the rectangle list is excluded by '==' (structural Rectangle.__eq__): a repeated "
                           "rectangle is excused from the abutment test although it overlaps the trunk",
                           lineno=n.lineno, test=ast.unparse(n))
    if n_cmp == 0:
        # exclusion by index is fine too; make sure some exclusion exists
        ctx.site(fi.where, "trunk exclusion by position")


@rule("C06", "R2.same-predicate", "PRED-EQ",
      "the candidate test and the labelling loop use the same predicate with the same roles: "
      "<trunk>.find_location(<other>) compared against / stored as the location", floor=2)
def r2(ctx: Ctx) -> None:
    fi = ctx.func(GEOM, "create_stog")
    c = canon_function(fi, ctx.model)
    calls = atoms_of(c, lambda x: x[0] == "c" and isinstance(x[1], tuple) and x[1][0] == "a" and x[1][2] == "find_location")
    calls = sorted(set(calls), key=skey)
    ctx.require(len(calls) >= 2, "create_stog: fewer than two find_location call sites")
    p0 = ("p", 0)
    for call in calls:
        recv, args = call[1][1], call[2]
        ctx.site(fi.where, "find_location call roles", call=show(call))
        ok = False
        if len(args) == 1:
            # labelling: receiver is element 0 of the list, argument another element
            if recv == ("s", p0, k_num(0)) and args[0][0] == "s" and args[0][1] == p0:
                ok = True
            # ... the other element being the variable of a loop over the rest of the list
            rest_loops = [lp for lp in atoms_of(c, lambda x: x[0] == "for" and len(x) == 5) if lp[2] == ("s", p0, ("slice", k_num(1), K_NONE, K_NONE))]
            if recv == ("s", p0, k_num(0)) and any(args[0] == lp[1] for lp in rest_loops):
                ok = True
            # candidate test: receiver is the loop element, argument the comprehension element
            if recv[0] == "v" and args[0][0] == "b":
                ok = True
        if not ok:
            ctx.report(fi.where, f"find-location-roles {show(call)}",
                       "find_location is not called as <trunk>.find_location(<other rectangle>)", lineno=fi.node.lineno)
    # candidate test: every element is the trunk itself or gets a side (!= NO_POLYGON)
    alls = atoms_of(c, lambda x: x[0] == "c" and x[1] == ("g", "all"))
    ctx.require(len(alls) == 1, "create_stog: candidate test all(...) not found")
    body = alls[0][2][0]
    ctx.site(fi.where, "candidate test quantifies over the whole list with '!= NO_POLYGON'", test=show(body))
    good = body[0] == "comp" and body[3][0][1] == p0 and body[3][0][2] == ("k", "bool", True)
    if good:
        cond = body[2][0]
        dis = set(cond[1]) if cond[0] == "or" else {cond}
        nonpoly = [d for d in dis if d[0] == "cmp" and d[1] == "sne" and NO in (d[2], d[3]) and
                   any(contains(x, "find_location") for x in (d[2], d[3]))]
        good = len(nonpoly) == 1 and len(dis) == 2
    if not good:
        ctx.report(fi.where, f"candidate-test {show(body)}", "the trunk candidate test is not 'for all r: r is the trunk or "
                   "trunk.find_location(r) != NO_POLYGON' over the whole list", lineno=fi.node.lineno)


def _is_location_store(st: ast.stmt):
    if isinstance(st, ast.Assign) and len(st.targets) == 1 and isinstance(st.targets[0], ast.Attribute) \
            and st.targets[0].attr == "location":
        return st.value
    return None


@rule("C06", "R3.reset-before-failure", "MUST-PASS",
      "every path to 'return False' passes the loop that resets all roles to NO_POLYGON, and no role other than "
      "NO_POLYGON is assigned on a path that can still fail", floor=1)
def r3(ctx: Ctx) -> None:
    fi = ctx.func(GEOM, "create_stog")
    g = ctx.cfg(fi)
    coll = fi.params()[0]
    fails = [n for n in g.stmt_nodes() if isinstance(n.ast, ast.Return) and isinstance(n.ast.value, ast.Constant)
             and n.ast.value.value is False]
    ctx.require(len(fails) >= 1, "create_stog: no 'return False'")

    def is_reset(n) -> bool:
        st = n.ast
        if n.kind == "iter" and isinstance(st, ast.For) and isinstance(st.iter, ast.Name) and st.iter.id == coll:
            for b in st.body:
                v = _is_location_store(b)
                if v is not None and ast.unparse(v).endswith("NO_POLYGON") and isinstance(b.targets[0].value, ast.Name) \
                        and isinstance(st.target, ast.Name) and b.targets[0].value.id == st.target.id:
                    return True
        return False
    for fnode in fails:
        ctx.site(fi.where, "reset loop on every path to 'return False'")
        if not g.must_pass(is_reset, ENTRY, fnode.id):
            ctx.report(fi.where, "fail-without-reset", "a path reaches 'return False' without resetting every role to NO_POLYGON",
                       lineno=fnode.lineno)
        for n in g.stmt_nodes():
            v = _is_location_store(n.ast) if n.kind == "stmt" else None
            if v is not None and not ast.unparse(v).endswith("NO_POLYGON") and g.can_reach(n.id, fnode.id):
                # the single-rectangle shortcut returns True immediately
                ctx.report(fi.where, f"role-before-failure {norm_stmt(n.ast)}",
                           "a role is assigned on a path that can still end in 'return False'", lineno=n.lineno)


_MUTATORS = {"append", "extend", "insert", "pop", "remove", "sort", "clear", "reverse", "__setitem__", "__delitem__"}


@rule("C06", "R4.permutation-only", "EFFECT",
      "create_stog only permutes the list (one element swap) and writes .location: no insertion/removal, no write "
      "to the geometry or attributes of a rectangle", floor=3)
def r4(ctx: Ctx) -> None:
    fi = ctx.func(GEOM, "create_stog")
    coll = fi.params()[0]
    for n in walk_own(fi.node):
        if isinstance(n, ast.Call) and isinstance(n.func, ast.Attribute) and isinstance(n.func.value, ast.Name) \
                and n.func.value.id == coll and n.func.attr in _MUTATORS:
            ctx.site(fi.where, "mutating call on the list", call=ast.unparse(n))
            ctx.report(fi.where, f"list-mutation {n.func.attr}", f"create_stog calls {coll}.{n.func.attr}(): the list is not merely reordered",
                       lineno=n.lineno)
        if isinstance(n, ast.Delete):
            ctx.site(fi.where, "del statement", stmt=ast.unparse(n))
            ctx.report(fi.where, f"list-mutation del", "create_stog deletes from the list", lineno=n.lineno)
        if isinstance(n, ast.Assign):
            for t in n.targets:
                subs = [x for x in (t.elts if isinstance(t, ast.Tuple) else [t])]
                sub_targets = [x for x in subs if isinstance(x, ast.Subscript) and isinstance(x.value, ast.Name) and x.value.id == coll]
                if sub_targets:
                    ctx.site(fi.where, "store into the list", stmt=norm_stmt(n))
                    vals = n.value.elts if isinstance(n.value, ast.Tuple) else [n.value]
                    lhs = sorted(ast.unparse(x) for x in subs)
                    rhs = sorted(ast.unparse(x) for x in vals)
                    if lhs != rhs:
                        ctx.report(fi.where, f"list-store {norm_stmt(n)}", "a store into the list is not an element swap "
                                   "(multiset of sources != multiset of targets): an element is dropped or duplicated", lineno=n.lineno)
                for x in subs:
                    if isinstance(x, ast.Attribute):
                        ctx.site(fi.where, "attribute store on an element", stmt=norm_stmt(n))
                        if x.attr != "location":
                            ctx.report(fi.where, f"elem-attr-store {x.attr}", f"create_stog writes .{x.attr} of a rectangle (only .location may change)",
                                       lineno=n.lineno)
        if isinstance(n, ast.AugAssign):
            ctx.site(fi.where, "augmented store", stmt=norm_stmt(n))
            if isinstance(n.target, (ast.Attribute, ast.Subscript)):
                ctx.report(fi.where, f"aug-store {norm_stmt(n)}", "create_stog modifies a rectangle or the list in place", lineno=n.lineno)
    # callees must not mutate either: find_location / area_overlap / bounding_box are pure (no stores at all)
    for q in ["Rectangle.find_location", "Rectangle.area_overlap", "Rectangle.bounding_box"]:
        f = ctx.func(GEOM, q)
        stores = [n for n in walk_own(f.node) if isinstance(n, (ast.Attribute, ast.Subscript)) and isinstance(n.ctx, (ast.Store, ast.Del))]
        ctx.site(f.where, "callee is store-free", stores=len(stores))
        for s_ in stores:
            ctx.report(f.where, f"callee-store {ast.unparse(s_)}", f"{q} (called during recognition) writes {ast.unparse(s_)}", lineno=s_.lineno)


@rule("C06", "R5.trunk-first", "ORDER",
      "on success the chosen trunk is swapped to position 0, TRUNK is given to position 0 after the swap, and the "
      "labelling loop covers positions 1..n-1; a single rectangle is the trunk", floor=4)
def r5(ctx: Ctx) -> None:
    fi = ctx.func(GEOM, "create_stog")
    c = canon_function(fi, ctx.model)
    p0 = ("p", 0)
    first = ("s", p0, k_num(0))
    trunk = loc("TRUNK")
    idx_swap = idx_trunk = idx_loop = idx_ret = None
    for i, st in enumerate(c):
        if st[0] == "mset" and first in st[1] and sorted(st[1], key=skey) == sorted(st[2], key=skey) and len(st[1]) == 2:
            idx_swap = i
        if st == ("set", ("a", first, "location"), trunk):
            idx_trunk = i
        if st[0] == "for" and st[2] == ("s", p0, ("slice", k_num(1), K_NONE, K_NONE)):      # every element but the first (index loops have this form too)
            v = st[1]
            want = ("set", ("a", v, "location"), ("c", ("a", first, "find_location"), (v,), ()))
            if st[3] == (want,):
                idx_loop = i
        if st == ("ret", ("k", "bool", True)):
            idx_ret = i
    ctx.site(fi.where, "swap of position 0 with the chosen trunk", found=idx_swap is not None)
    ctx.site(fi.where, "TRUNK assigned to position 0 after the swap", found=idx_trunk is not None)
    ctx.site(fi.where, "labelling loop over range(1, len)", found=idx_loop is not None)
    if idx_swap is None:
        ctx.report(fi.where, "no-trunk-swap", "the chosen trunk is not moved to the front by an element swap with position 0", lineno=fi.node.lineno)
    if idx_trunk is None or (idx_swap is not None and idx_trunk < idx_swap):
        ctx.report(fi.where, "trunk-role-order", "TRUNK is not assigned to position 0 after the swap", lineno=fi.node.lineno)
    if idx_loop is None or (idx_swap is not None and idx_loop < idx_swap):
        ctx.report(fi.where, "label-loop", "the labelling loop is not 'for i in range(1, len): list[i].location = list[0].find_location(list[i])' after the swap",
                   lineno=fi.node.lineno)
    if idx_ret is None or idx_ret != len(c) - 1:
        ctx.report(fi.where, "success-return", "create_stog does not end with 'return True'", lineno=fi.node.lineno)
    single = [st for st in c if st[0] == "if" and st[2] == (("set", ("a", first, "location"), trunk), ("ret", ("k", "bool", True)))]
    ctx.site(fi.where, "single rectangle is the trunk", found=bool(single))
    if not single:
        ctx.report(fi.where, "single-rectangle", "a one-rectangle list is not labelled TRUNK and accepted", lineno=fi.node.lineno)
    # the swap index is the variable updated by the candidate test
    # Module.create_stog / has_stog wiring
    fm = ctx.func(MODULE, "Module.create_stog")
    cm = canon_function(fm, ctx.model)
    ctx.site(fm.where, "Module.create_stog passes the module's own rectangle list")
    if cm != (("ret", ("c", ("g", "create_stog"), (("a", ("self",), "rectangles"),), ())),):
        ctx.report(fm.where, "module-create-stog " + "; ".join(show(x) for x in cm), "Module.create_stog does not run create_stog on self.rectangles", lineno=fm.node.lineno)
    fh = ctx.func(MODULE, "Module.has_stog")
    ch = canon_function(fh, ctx.model)
    ctx.site(fh.where, "has_stog == first rectangle is TRUNK")
    first_is_trunk = ("cmp", "seq", *sorted([("a", ("s", ("a", ("self",), "rectangles"), k_num(0)), "location"), trunk], key=skey))
    # 'there is a rectangle': the count is positive, or the list is non-empty
    wants = [("ret", mk_and([ne, first_is_trunk])) for ne in (mk_lt(k_num(0), ("a", ("self",), "num_rectangles")), ("a", ("self",), "rectangles"))]
    if ch not in [(w,) for w in wants]:
        ctx.report(fh.where, "has-stog " + "; ".join(show(x) for x in ch), "has_stog is not 'num_rectangles > 0 and rectangles[0].location == TRUNK'", lineno=fh.node.lineno)


@rule("C06", "R7.pruning-sound", "GUARD",
      "in the trunk search a candidate is skipped (break / continue) only when a valid trunk has already been found: "
      "pruning on areas of rectangles that were not valid trunks makes recognition incomplete and order-dependent", floor=1)
def r7(ctx: Ctx) -> None:
    fi = ctx.func(GEOM, "create_stog")
    g = ctx.cfg(fi)
    # the candidate loop: the for statement whose body contains the all(...) candidate test
    loops = [n for n in walk_own(fi.node) if isinstance(n, ast.For) and any(isinstance(c, ast.Call) and call_name(c) == "all" for c in ast.walk(n))]
    ctx.require(len(loops) == 1, "create_stog: candidate loop not found")
    lp = loops[0]
    # the variable that records the accepted trunk: assigned under the all(...) test
    best = None
    for n in ast.walk(lp):
        if isinstance(n, ast.If) and any(isinstance(c, ast.Call) and call_name(c) == "all" for c in ast.walk(resolve_local(fi.node, n.test))):
            for st in n.body:
                if isinstance(st, ast.Assign) and isinstance(st.targets[0], ast.Name):
                    best = st.targets[0].id
    ctx.require(best is not None, "create_stog: variable recording the accepted trunk not found")
    cn = g.canon()
    bvar = cn.expr(ast.Name(id=best, ctx=ast.Load()))
    jumps = [n for n in g.stmt_nodes() if n.kind == "stmt" and isinstance(n.ast, (ast.Break, ast.Continue)) and any(x is n.ast for x in ast.walk(lp))]
    ctx.site(fi.where, "every break/continue of the candidate loop is dominated by 'a valid trunk was found'", jumps=len(jumps))
    for n in jumps:
        facts = g.facts_at(n.id)
        ok = mk_not(mk_lt(bvar, k_num(0))) in facts or mk_lt(k_num(-1), bvar) in facts or any(f_[0] == "cmp" and f_[1] == "isnot" and f_[2] == bvar for f_ in facts)
        if not ok:
            ctx.report(fi.where, f"unsound-pruning {norm_stmt(n.ast)}", "a trunk candidate can be skipped although no valid trunk has been found yet: an orthogon whose trunk is not the "
                       "largest rectangle is rejected depending on the order of the list", lineno=n.lineno, facts=sorted(show(x) for x in facts))


@rule("C06", "R8.recognition-reruns", "LOOP-COVER",
      "Netlist.create_stogs runs the recognition for every module, unconditionally: the roles are recomputed from the current "
      "geometry, never kept because a module 'already has' a labelling (has_stog only looks at the stored role of the first rectangle)", floor=1)
def r8_reruns(ctx: Ctx) -> None:
    from .common import NETLIST
    f = ctx.func(NETLIST, "Netlist.create_stogs")
    c = canon_function(f, ctx.model)
    loops = [st for st in c if st[0] == "for" and st[2] == ("a", ("self",), "modules")]
    ctx.site(f.where, "for every module: m.create_stog(), with no condition", loops=len(loops))
    ok = len(loops) == 1 and len(c) == 1 and loops[0][3] == (("expr", ("c", ("a", loops[0][1], "create_stog"), (), ())),)
    if not ok:
        ctx.report(f.where, "recognition-skipped " + "; ".join(show(x) for x in c)[:160], "Netlist.create_stogs does not call create_stog() for every module unconditionally: "
                   "a module whose rectangles were moved keeps roles that no longer describe it", lineno=f.node.lineno)


@rule("C06", "R9.every-listed-rectangle-read", "LOOP-COVER",
      "the list create_stog examines is the list the design gives: parse_yaml_rectangles builds one rectangle for EVERY entry of the "
      "rectangle list, unconditionally (no entry skipped because an equal one was seen, none filtered), and removes none afterwards -- a "
      "repeated rectangle makes a module a non-orthogon and has to reach the recognition", floor=1)
def r9_every_rectangle(ctx: Ctx) -> None:
    from .common import YREAD
    from framelint.canon import K_TRUE
    f = ctx.func(YREAD, "parse_yaml_rectangles")
    c = canon_function(f, ctx.model)
    made = lambda x: isinstance(x, tuple) and contains(x, ("g", "parse_yaml_rectangle"))
    n = 0

    def walk(stmts, in_loop, guarded):
        nonlocal n
        for st in stmts:
            if st[0] == "for" and len(st) == 5:
                walk(st[3], True, False)
            elif st[0] == "while":
                walk(st[2] if len(st) > 2 and isinstance(st[2], tuple) else (), True, False)
            elif st[0] == "if" and len(st) == 4:
                # outside the loop the two spellings of the list are told apart; inside the loop nothing decides about an entry
                walk(st[2], in_loop, guarded or in_loop)
                walk(st[3], in_loop, guarded or in_loop)
            elif st[0] == "expr" and st[1][0] == "c" and st[1][1][0] == "a" and made(st[1]):
                meth = st[1][1][2]
                if in_loop and meth in ("append", "add", "insert", "extend"):
                    n += 1
                    if guarded:
                        ctx.report(f.where, "entry-skipped", "parse_yaml_rectangles adds the rectangle of an entry only under a condition: some entries of the design's "
                                   "rectangle list never reach the module (a repeated rectangle is dropped, so [T, B, T] is recognised as the orthogon [T, B])",
                                   lineno=f.node.lineno)
    walk(c, False, False)
    for cp in atoms_of(c, lambda x: x[0] == "comp" and len(x) == 4 and made(x[2])):
        n += 1
        if any(cl[2] != K_TRUE for cl in cp[3]):
            ctx.report(f.where, "entry-skipped", "parse_yaml_rectangles filters the entries of the rectangle list it builds rectangles for", lineno=f.node.lineno)
    removed = [x for x in walk_own(f.node) if isinstance(x, ast.Call) and isinstance(x.func, ast.Attribute) and x.func.attr in ("remove", "pop", "clear", "discard")
               or isinstance(x, ast.Delete)]
    removed += [x for x in walk_own(f.node) if isinstance(x, ast.Call) and call_name(x) in ("set", "frozenset", "unique", "fromkeys")]
    ctx.site(f.where, "one rectangle per entry of the list, unconditionally; nothing removed", builders=n, removals=len(removed))
    for x in removed:
        ctx.report(f.where, f"entry-removed {ast.unparse(x)[:40]}", "parse_yaml_rectangles removes / de-duplicates rectangles after reading them", lineno=getattr(x, "lineno", 0))
    ctx.require(n >= 1, "parse_yaml_rectangles: the construction of the rectangles was not found")


def recognition_for_every_kind(ctx: Ctx) -> None:
    """call sites of Module.create_stog in the netlist: recognition runs for every module that has rectangles, whatever its kind
    -- no test on a kind flag (hard / fixed / terminal / soft / flip) decides whether a site is reached, neither as the branch
    taken nor as the 'else' of such a test."""
    KIND = {"is_hard", "is_fixed", "is_terminal", "is_soft", "is_iopin", "flip", "is_hard_or_fixed"}
    n = 0
    for f in ctx.model.all_functions(include_inlined=True):
        if f.module.relpath != NETLIST:
            continue
        parents = {}
        for p in ast.walk(f.node):
            for c in ast.iter_child_nodes(p):
                parents[c] = p
        for c in walk_own(f.node):
            if not (isinstance(c, ast.Call) and isinstance(c.func, ast.Attribute) and c.func.attr == "create_stog"):
                continue
            n += 1
            ctx.site(f.where, "recognition call site reached for every kind of module", call=ast.unparse(c))
            x = c
            while x in parents and x is not f.node:
                p = parents[x]
                tests = []
                if isinstance(p, (ast.If, ast.While)) and x is not p.test:
                    tests.append(p.test)
                if isinstance(p, ast.IfExp) and x is not p.test:
                    tests.append(p.test)
                for t in tests:
                    flags = sorted({a.attr for a in ast.walk(t) if isinstance(a, ast.Attribute) and a.attr in KIND})
                    if flags:
                        ctx.report(f.where, f"recognition-by-kind {','.join(flags)}", f"{f.qualname}: whether '{ast.unparse(c)}' runs depends on the kind of "
                                   f"the module ('{ast.unparse(t)[:60]}'): modules of the other kind keep unlabelled rectangles (no trunk, has_stog False)",
                                   lineno=c.lineno)
                x = p
    ctx.require(n >= 2, f"create_stog call sites in the netlist fewer than confirmed ({n})")


@rule("C06", "R10.recognition-for-every-kind", "GUARD",
      "the netlist runs the recognition on every module with rectangles, whatever its kind: no call site of create_stog is "
      "under (or in the else of) a test of a kind flag -- a hard / fixed module loaded from a description is recognised like a "
      "soft one (seeded change C15-9)", floor=2)
def r10_every_kind(ctx: Ctx) -> None:
    recognition_for_every_kind(ctx)


@rule("C06", "R11.every-listed-rectangle-added", "LOOP-COVER",
      "the module the recognition looks at has every rectangle its description lists, repeated ones included (two equal "
      "rectangles overlap: not an orthogon): in parse_yaml_module the loop over the parsed rectangles adds each one -- the "
      "add_rectangle call is an unconditional statement of the loop body and nothing before it can skip an iteration or "
      "leave the loop (seeded change C06-9)", floor=1)
def r11_every_rectangle(ctx: Ctx) -> None:
    from .common import YREAD
    f = ctx.func(YREAD, "parse_yaml_module")
    n = 0
    for loop in walk_own(f.node):
        if not isinstance(loop, ast.For):
            continue
        adds = [c for c in ast.walk(loop) if isinstance(c, ast.Call) and isinstance(c.func, ast.Attribute) and c.func.attr == "add_rectangle"]
        if not adds:
            continue
        n += 1
        ctx.site(f.where, "every parsed rectangle is added to the module", loop=norm_stmt(loop)[:60])
        top = [i for i, st in enumerate(loop.body) if isinstance(st, ast.Expr) and any(c in adds for c in ast.walk(st))]
        if not top:
            ctx.report(f.where, "conditional-add", f"{f.qualname}: add_rectangle is not an unconditional statement of the loop over the listed rectangles",
                       lineno=loop.lineno)
            continue
        for st in loop.body[:top[0]]:
            if any(isinstance(x, (ast.Continue, ast.Break, ast.Return)) for x in ast.walk(st)):
                ctx.report(f.where, f"skipped-rectangle {norm_stmt(st)[:50]}", f"{f.qualname}: an iteration of the loop over the listed rectangles can end before "
                           f"add_rectangle ('{norm_stmt(st)[:60]}'): a listed rectangle is dropped", lineno=st.lineno)
    ctx.require(n >= 1, "parse_yaml_module: loop adding the parsed rectangles not found")
