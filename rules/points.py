"""Point arithmetic (frame/geometry/geometry.py::Point): the vector operations several properties compute with.
One rule body, evaluated for the properties that depend on it (C17 distance of disc centres, C13 positions, C05 wire
length)."""
from __future__ import annotations

from framelint.core import Ctx
from framelint.canon import canon_function, show, to_poly, k_num, mk_and, mk_eq, Sigma
from .common import GEOM

S_ = ("self",)
O = ("p", 0)


def _pt(a, b):
    return ("c", ("g", "Point"), (a, b), ())


def _x(o):
    return ("a", o, "x")


def _y(o):
    return ("a", o, "y")


def point_arithmetic(ctx: Ctx, ops=None) -> None:
    """component-wise exact laws; ``ops`` restricts the operations examined"""
    conv = ("set", O, ("c", ("g", "Point"), (O,), ()))       # other = Point(other): numbers and pairs are accepted
    plus = lambda a, b: (to_poly(a) + to_poly(b)).to_s()
    times = lambda a, b: (to_poly(a) * to_poly(b)).to_s()
    neg = lambda a: (-to_poly(a)).to_s()
    inv = lambda a: ("inv", a)
    sq = lambda a: (to_poly(a) * to_poly(a)).to_s()
    table = {
        "__neg__": [(("ret", _pt(neg(_x(S_)), neg(_y(S_)))),)],
        "__add__": [(conv, ("ret", _pt(plus(_x(S_), _x(O)), plus(_y(S_), _y(O))))),
                    (("ret", _pt(plus(_x(S_), _x(O)), plus(_y(S_), _y(O)))),)],
        "__sub__": [(conv, ("ret", plus(_pt(_x(S_), _y(S_)), neg(O)))),
                    (conv, ("ret", plus(S_, neg(O)))),
                    (conv, ("ret", _pt(plus(_x(S_), neg(_x(O))), plus(_y(S_), neg(_y(O))))))],
        "__mul__": [(conv, ("ret", _pt(times(_x(S_), _x(O)), times(_y(S_), _y(O)))))],
        "__truediv__": [(conv, ("ret", _pt(times(_x(S_), inv(_x(O))), times(_y(S_), inv(_y(O))))))],
        "__and__": [(("ret", plus(times(_x(S_), _x(O)), times(_y(S_), _y(O)))),)],
        "norm": [(("ret", ("pow", plus(sq(_x(S_)), sq(_y(S_))), k_num(__import__("fractions").Fraction(1, 2)))),),
                 (("ret", ("c", ("a", ("g", "math"), "sqrt"), (plus(sq(_x(S_)), sq(_y(S_))),), ())),),
                 (("ret", ("c", ("a", ("g", "math"), "hypot"), (_x(S_), _y(S_)), ())),),
                 (("ret", ("c", ("a", ("g", "math"), "hypot"), (_y(S_), _x(S_)), ())),)],
        "__eq__": None,
    }
    what = {"__neg__": "-p == Point(-x, -y)", "__add__": "p + q == Point(x + q.x, y + q.y) exactly (no rounding)",
            "__sub__": "p - q == p + (-q)", "__mul__": "p * q component-wise", "__truediv__": "p / q component-wise",
            "__and__": "p & q == x*q.x + y*q.y", "norm": "|p| == sqrt(x^2 + y^2) for every p (no case split)"}
    def unconv(c):
        """'other = Point(other)' re-binding the parameter, or a new local holding Point(other): one form"""
        if c and c[0] == conv:
            return tuple(Sigma(raw_subst={O: conv[2]}).apply(st) for st in c[1:])
        return tuple(c)
    for op, forms in table.items():
        if forms is None or (ops is not None and op not in ops):
            continue
        forms = [unconv(fm) for fm in forms]
        f = ctx.func(GEOM, "Point." + op)
        c = canon_function(f, ctx.model, None, expand=True)
        c = unconv(tuple(st for st in c if st[0] != "assert"))
        ctx.site(f.where, what[op])
        if c not in forms:
            ctx.report(f.where, f"point-{op.strip('_')} " + "; ".join(show(x) for x in c)[:200],
                       f"Point.{op} is not the exact vector operation ({what[op]}): distances, sums of positions and wire lengths computed with it are wrong for "
                       "some operands", lineno=f.node.lineno)
