"""Primitive conventions that many properties silently compute with (found by the third round of seeded changes: every one
of them broke a property by editing a small helper "for another caller's benefit"):

* the tolerance primitives: ``Rectangle.set_epsilon`` stores the distance tolerance unchanged and defaults the area
  tolerance to its square root; the two getters hand the stored values out; ``almost_eq(a, b, eps)`` is the absolute test
  ``abs(a - b) < eps``; ``Rectangle.overlap`` is ``area_overlap > area tolerance``;
* coordinates are stored as given: the ``Point`` / ``Shape`` setters and ``Rectangle``'s centre / shape setters store
  their argument, and nothing in the geometry / netlist / die / allocation library rounds or truncates a number
  (``round``, ``int``, ``math.floor`` / ``ceil`` / ``trunc`` / ``isclose``);
* the setter of ``Module.center`` writes the centre and nothing else.

One body each, registered as a rule of every property that depends on it (``SHARED``)."""
from __future__ import annotations

import ast

from framelint.core import Ctx, rule
from framelint.srcmodel import walk_own
from framelint.canon import canon_function, show, to_poly, mk_lt, mk_ite, mk_not, k_num
from .common import GEOM, MODULE, call_name

S_ = ("self",)
RECT = ("g", "Rectangle")


def tolerance_primitives(ctx: Ctx) -> None:
    m = ctx.model
    f = ctx.func(GEOM, "Rectangle.set_epsilon")
    c = canon_function(f, m, None, expand=True)
    d, a = ("p", 0), ("p", 1)
    # on every path: the distance tolerance is stored as given; the area tolerance is the given one when it is >= 0 and
    # sqrt(distance tolerance) otherwise (a conditional value, a conditional statement or an early return: all the same paths)
    from framelint.peval import traces
    root = ("c", ("a", ("g", "math"), "sqrt"), (d,), ())
    ok = True
    n_paths = 0
    for lits, effs, out in traces(c, keep_sets=True, split_values=True):
        n_paths += 1
        stores = {}
        for e in effs:
            if e[0] == "set" and len(e) == 3 and e[1][0] == "a" and e[1][1] == RECT:
                stores[e[1][2]] = e[2]
            elif e[0] != "set":
                ok = False
        area = stores.get("_area_epsilon")
        if isinstance(area, tuple) and area[:1] == ("ite",):
            cond, a1, a2 = area[1], area[2], area[3]
            given = (a1 == a and a2 == root and cond == mk_not(mk_lt(a, k_num(0)))) or (a1 == root and a2 == a and cond == mk_lt(a, k_num(0)))
        else:
            given = (area == a and mk_not(mk_lt(a, k_num(0))) in lits) or (area == root and mk_lt(a, k_num(0)) in lits)
        if stores.get("_distance_epsilon") != d or not given or set(stores) != {"_distance_epsilon", "_area_epsilon"}:
            ok = False
    ctx.site(f.where, "set_epsilon: distance tolerance stored unchanged; area tolerance defaults to sqrt(distance tolerance)", paths=n_paths)
    if not ok or not n_paths:
        ctx.report(f.where, "set-epsilon " + "; ".join(show(x) for x in c)[:200],
                   "Rectangle.set_epsilon does not store (distance tolerance, area tolerance or sqrt(distance tolerance) when it is not given): with a "
                   "smaller default area tolerance one-ulp slivers between abutting rectangles count as overlaps and valid dies / allocations are rejected",
                   lineno=f.node.lineno)
    for q, fld in [("Rectangle.distance_epsilon", "_distance_epsilon"), ("Rectangle.area_epsilon", "_area_epsilon")]:
        g = ctx.func(GEOM, q)
        cg = canon_function(g, m, None, expand=True)
        ctx.site(g.where, f"{q}() hands out the stored tolerance")
        rets = [st for st in cg if st[0] == "ret"]
        if len(rets) != 1 or rets[0][1] != ("a", RECT, fld) or any(st[0] not in ("ret", "assert") for st in cg):
            ctx.report(g.where, f"epsilon-getter {q}", f"{q} does not return the stored class-wide tolerance unchanged", lineno=g.node.lineno)
    al = None
    for mi in m.modules.values():
        if "almost_eq" in mi.functions and mi.functions["almost_eq"].cls is None:
            al = mi.functions["almost_eq"]
    ctx.require(al is not None, "almost_eq not found")
    ca = canon_function(al, m, None, expand=True)
    v1, v2, eps = ("p", 0), ("p", 1), ("p", 2)
    diff1 = ("c", ("g", "abs"), ((to_poly(v1) - to_poly(v2)).to_s(),), ())
    diff2 = ("c", ("g", "abs"), ((to_poly(v2) - to_poly(v1)).to_s(),), ())
    ctx.site(al.where, "almost_eq(a, b, eps) == abs(a - b) < eps (an absolute tolerance, the same everywhere in the plane)")
    if ca not in ((("ret", mk_lt(diff1, eps)),), (("ret", mk_lt(diff2, eps)),)):
        ctx.report(al.where, "almost-eq " + "; ".join(show(x) for x in ca)[:160],
                   "almost_eq is not the absolute test abs(a - b) < epsilon: a relative part makes the tolerance grow with the distance from the origin, so "
                   "rectangles with a real gap are taken as abutting far away from it", lineno=al.node.lineno)
    ov = ctx.func(GEOM, "Rectangle.overlap")
    co = canon_function(ov, m, None, expand=True)
    ctx.site(ov.where, "overlap(r) == area_overlap(r) > area tolerance")
    want_o = mk_lt(("c", ("a", RECT, "area_epsilon"), (), ()), ("c", ("a", S_, "area_overlap"), (("p", 0),), ()))
    if co != (("ret", want_o),):
        ctx.report(ov.where, "overlap-definition " + "; ".join(show(x) for x in co)[:160], "Rectangle.overlap is not 'area_overlap(r) > area tolerance'",
                   lineno=ov.node.lineno)


_ROUNDING = {"round", "int", "floor", "ceil", "trunc", "isclose", "rint", "around"}


def stored_as_given(ctx: Ctx) -> None:
    m = ctx.model
    # setters of the value records store their argument
    n = 0
    for q, fld in [("Point.x", "_x"), ("Point.y", "_y"), ("Shape.w", "_w"), ("Shape.h", "_h"), ("Rectangle.center", "_center"), ("Rectangle.shape", "_shape"),
                   ("Rectangle.fixed", "_fixed"), ("Rectangle.hard", "_hard"), ("Rectangle.region", "_region"), ("Rectangle.location", "_location")]:
        cls_name, prop = q.split(".")
        ci = m.cls(GEOM, cls_name)
        setters = [f for f in m.all_functions(include_inlined=True) if f.cls is ci and f.kind == "setter" and f.name == prop]
        if not setters:
            continue          # a plain dataclass field has no setter: nothing can be rounded on the way in
        for f in setters:
            n += 1
            c = canon_function(f, m, None, expand=True)
            sets = [st for st in c if st[0] == "set" and len(st) == 3 and st[1][0] == "a" and st[1][1] == S_]
            ctx.site(f.where, f"{q} setter stores its argument unchanged")
            if len(sets) != 1 or sets[0][2] != ("p", 0) or any(st[0] not in ("set", "assert") for st in c):
                ctx.report(f.where, f"setter-not-identity {q}", f"the setter of {q} does not store the value it is given: a coordinate that is rounded or "
                           "clamped on the way in moves a centre while the sizes stay exact, so pieces of a split / grid no longer tile their parent",
                           lineno=f.node.lineno)
    ctx.require(n >= 4, "coordinate / rectangle setters not found")
    # and the getters of the same fields hand the stored object out (no copy with adjusted numbers)
    for q in ["Point.x", "Point.y", "Rectangle.center", "Rectangle.shape", "Rectangle.region"]:
        cls_name, prop = q.split(".")
        ci = m.cls(GEOM, cls_name)
        getters = [f for f in m.all_functions(include_inlined=True) if f.cls is ci and f.kind == "property" and f.name == prop]
        for f in getters:
            c = canon_function(f, m, None, expand=True)
            ctx.site(f.where, f"{q} getter returns the stored value")
            if not (len(c) == 1 and c[0][0] == "ret" and c[0][1][0] == "a" and c[0][1][1] == S_):
                ctx.report(f.where, f"getter-not-identity {q}", f"the getter of {q} does not return the stored value itself", lineno=f.node.lineno)
    # the plain records (dataclasses: BoundingBox, RectAlloc, Shape, the nets ...) hold what they were constructed with: a hook that
    # runs at construction or on attribute access may test the fields, not write them
    _MUT = {"append", "extend", "pop", "clear", "update", "remove", "insert", "sort", "reverse", "setdefault", "popitem", "add", "discard",
            "__setattr__", "__setitem__", "__delitem__", "__delattr__"}
    n_rec = 0
    for mi in m.modules.values():
        if not mi.relpath.startswith("frame/"):
            continue
        for ci in mi.classes.values():
            if not ci.is_dataclass:
                continue
            n_rec += 1
            hooks = [h for h in ci.node.body if isinstance(h, (ast.FunctionDef, ast.AsyncFunctionDef))
                     and h.name in ("__post_init__", "__init__", "__setattr__", "__getattribute__", "__getattr__", "__new__")]
            ctx.site(f"{mi.relpath}::{ci.name}", "record keeps the values it is constructed with (no hook that rewrites a field)", hooks=[h.name for h in hooks])
            for h in hooks:
                writes = []
                for x in ast.walk(h):
                    tg = []
                    if isinstance(x, ast.Assign):
                        tg = list(x.targets)
                    elif isinstance(x, (ast.AugAssign, ast.AnnAssign)):
                        tg = [x.target]
                    elif isinstance(x, ast.Delete):
                        tg = list(x.targets)
                    elif isinstance(x, (ast.For, ast.AsyncFor)):
                        tg = [x.target]
                    for t in tg:
                        for y in ast.walk(t):
                            if isinstance(y, (ast.Attribute, ast.Subscript)) and isinstance(y.ctx, (ast.Store, ast.Del)):
                                writes.append(ast.unparse(y))
                    if isinstance(x, ast.Call) and (call_name(x) in _MUT or call_name(x) == "setattr"):
                        writes.append(ast.unparse(x)[:40])
                if writes and h.name != "__init__":
                    ctx.report(f"{mi.relpath}::{ci.name}.{h.name}", f"record-rewritten {ci.name}.{h.name}",
                               f"{ci.name}.{h.name} writes {', '.join(sorted(set(writes))[:4])}: the record no longer holds the values it was given (ratios renormalised, "
                               "zero entries dropped, corners snapped or rounded), so cells, boxes and nets built from it differ from what the caller "
                               "passed and what other code computed from the same numbers", lineno=h.lineno)
    ctx.require(n_rec >= 6, f"record classes of the library not found ({n_rec})")
    # nothing in the library rounds or truncates a number
    hits = []
    n_fn = 0
    for f in m.all_functions(include_inlined=True):
        if not f.module.relpath.startswith("frame/"):
            continue
        n_fn += 1
        for c in walk_own(f.node):
            if isinstance(c, ast.Call) and call_name(c) in _ROUNDING:
                hits.append((f, c))
    ctx.site("frame/", "no rounding / truncation of numbers in the library (round, int, floor, ceil, trunc, isclose)", functions=n_fn, calls=len(hits))
    for f, c in hits:
        ctx.report(f.where, f"rounding {ast.unparse(c)[:60]}", f"{f.qualname} rounds or truncates a number ({call_name(c)}): coordinates and areas are "
                   "carried exactly through the library; an absolute rounding step makes results depend on the unit of length", lineno=c.lineno)


def module_setters_pure(ctx: Ctx) -> None:
    m = ctx.model
    ci = m.cls(MODULE, "Module")
    n = 0
    for f in m.all_functions(include_inlined=True):
        if f.cls is not ci or f.kind != "setter" or f.name != "center":
            continue          # (is_fixed legitimately hands the flag on to the rectangles: C05.R4 decides that one)
        n += 1
        c = canon_function(f, m, None, expand=True)
        stores = [st for st in c if st[0] in ("set", "aug", "mset", "del")]
        calls = [x for x in walk_own(f.node) if isinstance(x, ast.Call) and call_name(x) not in ("isinstance", "len", "float", "int", "bool", "str", "Point")]
        targets = {st[1] for st in stores if st[0] == "set" and len(st) == 3}
        ok = all(st[0] == "set" and len(st) == 3 and st[1][0] == "a" and st[1][1] == S_ for st in stores) and len(targets) == 1 and not calls \
            and not any(st[0] in ("for", "while", "expr") for st in c)
        ctx.site(f.where, f"Module.{f.name} setter writes one field of the module and nothing else", stores=len(stores), calls=len(calls))
        if not ok:
            ctx.report(f.where, f"setter-effect Module.{f.name}", f"the setter of Module.{f.name} does more than store the value (it calls "
                       f"{', '.join(sorted({call_name(x) for x in calls})) or 'nothing'} / writes other state): a stage that only assigns a new centre then also moves or "
                       "changes the module's rectangles", lineno=f.node.lineno)
    ctx.require(n >= 1, "Module.center setter not found")


def number_test(ctx: Ctx) -> None:
    m = ctx.model
    fn = None
    for mi in m.modules.values():
        if "is_number" in mi.functions and mi.functions["is_number"].cls is None and mi.relpath.startswith("frame/"):
            fn = mi.functions["is_number"]
    ctx.require(fn is not None, "is_number not found")
    c = canon_function(fn, m, None, expand=True)
    n_ = ("p", 0)
    real = ("c", ("g", "isinstance"), (n_, ("a", ("g", "numbers"), "Real")), ())
    from framelint.canon import mk_or
    intfloat = mk_or([("c", ("g", "isinstance"), (n_, ("g", "int")), ()), ("c", ("g", "isinstance"), (n_, ("g", "float")), ())])
    ctx.site(fn.where, "is_number(n) == n is a real number (int or float)")
    if c not in ((("ret", real),), (("ret", intfloat),)):
        ctx.report(fn.where, "is-number " + "; ".join(show(x) for x in c)[:160], "is_number is not 'the value is an int or a float': the readers' numeric checks "
                   "(coordinates, areas, weights) then admit or refuse other values than the documented ones", lineno=fn.node.lineno)


def tolerance_positive(ctx: Ctx) -> None:
    """the size the class-wide tolerance is derived from is a positive length: in the netlist's definition every square root of
    a module area is taken only for a positive area (a terminal has area 0: the tolerance would become 0, which still counts as
    'defined', and abutting rectangles with one-ulp noise are then overlapping)"""
    from .common import NETLIST, stmt_calls, norm_stmt, facts_text
    f = ctx.func(NETLIST, "Netlist._create_rectangles")
    g = ctx.cfg(f)
    n = 0
    for node, c, s in stmt_calls(ctx, f):
        if call_name(c) != "sqrt" or s is None or not s[2]:
            continue
        n += 1
        arg = s[2][0]
        facts = g.facts_at(node.id)
        in_comp = any(isinstance(x, (ast.ListComp, ast.GeneratorExp, ast.SetComp)) and any(y is c for y in ast.walk(x))
                      and not any(any(z is c for z in ast.walk(e)) for gen in x.generators for e in [gen.iter]) for x in ast.walk(node.ast))
        ok = mk_lt(k_num(0), arg) in facts and not in_comp
        if in_comp:
            # inside a comprehension the guard is the comprehension's own condition
            for x in ast.walk(node.ast):
                if isinstance(x, (ast.ListComp, ast.GeneratorExp, ast.SetComp)) and any(y is c for y in ast.walk(x.elt)):
                    cn = g.canon()
                    conds = [cn.expr(i_) for gen in x.generators for i_ in gen.ifs]
                    inner = cn.expr(c.args[0]) if c.args else None
                    ok = any(cd == mk_lt(k_num(0), inner) or (cd[0] == "and" and mk_lt(k_num(0), inner) in cd[1]) for cd in conds)
        ctx.site(f.where, "sqrt(area) feeds the tolerance only for a positive area", stmt=norm_stmt(node.ast)[:80], guarded=ok)
        if not ok:
            ctx.report(f.where, f"tolerance-from-zero-area {norm_stmt(node.ast)[:70]}", "the netlist derives the class-wide tolerance from sqrt(area) of modules whose area can be 0 "
                       "(terminals): the tolerance becomes 0 and stays 'defined', so dies and allocations with decimal coordinates are rejected as overlapping",
                       lineno=c.lineno, facts=facts_text(facts))
    ctx.require(n >= 1, "_create_rectangles: the square root of the module areas was not found")


_POS = ("GUARD", "the class-wide tolerance is derived from positive lengths only: sqrt(module area) enters it only for area > 0")
_NUM = ("SHARED", "is_number(n) is the plain type test 'n is an int or a float' that every reader relies on for coordinates, areas and weights")
_TOL = ("SHARED", "tolerance primitives: set_epsilon stores the distance tolerance and defaults the area tolerance to its square root, the getters "
        "hand the stored values out, almost_eq is the absolute test abs(a - b) < eps, overlap is area_overlap > area tolerance")
_STO = ("SHARED", "numbers are carried as given: the coordinate setters of Point / Shape store their argument, and no library function rounds or "
        "truncates a number (round, int, floor, ceil, trunc, isclose)")
_SET = ("SHARED", "the setter of Module.center writes the centre and nothing else (assigning a centre does not move or change the rectangles)")

for _p in ["C01", "C02", "C03", "C06", "C09", "C11", "C12", "C15", "C18", "C20"]:
    rule(_p, "P1.tolerance-primitives", *_TOL, floor=5)(tolerance_primitives)
for _p in ["C01", "C02", "C03", "C05", "C10", "C11", "C12", "C13", "C14", "C17", "C18"]:
    rule(_p, "P2.stored-as-given", *_STO, floor=3)(stored_as_given)
for _p in ["C01", "C04", "C05", "C19"]:
    rule(_p, "P4.number-test", *_NUM, floor=1)(number_test)
for _p in ["C01", "C02", "C20"]:
    rule(_p, "P5.tolerance-positive", *_POS, floor=1)(tolerance_positive)
for _p in ["C10", "C13", "C14"]:
    rule(_p, "P3.centre-setter", *_SET, floor=1)(module_setters_pure)
