"""C17 -- the disc-overlap area is total (never fails).  Symmetry, bounds and accuracy are numerical: not decided."""
from __future__ import annotations

import ast

from framelint.core import rule, Ctx
from framelint.srcmodel import walk_own, AnalysisError
from framelint.canon import (canon_function, show, S, to_poly, mk_lt, mk_not, k_num, contains, skey, atoms_of, Sigma, K_TRUE)
from framelint.cfg import ENTRY, EXIT
from .common import FORCE, call_name, norm_stmt, stmt_calls, facts_text

PARTIAL = {"acos": (-1, 1), "asin": (-1, 1)}
from framelint.canon import canon_function as _canon_function_expanded

def canon_function(fi, model=None, opts=None):   # rules of this file match shapes: look through every local
    return _canon_function_expanded(fi, model, opts, expand=True)



def _is_clamped(arg: ast.expr, lo: float, hi: float) -> bool:
    """max(lo, min(hi, e)) / min(hi, max(lo, e)) / clip(e, lo, hi) with literal bounds inside [lo, hi]"""
    def lit(n):
        if isinstance(n, ast.Constant) and isinstance(n.value, (int, float)):
            return float(n.value)
        if isinstance(n, ast.UnaryOp) and isinstance(n.op, ast.USub) and isinstance(n.operand, ast.Constant):
            return -float(n.operand.value)
        return None
    if isinstance(arg, ast.Call) and call_name(arg) in ("max", "min") and len(arg.args) == 2:
        outer = call_name(arg)
        lits = [lit(a) for a in arg.args]
        inner = [a for a, l in zip(arg.args, lits) if l is None]
        bound = [l for l in lits if l is not None]
        if len(inner) == 1 and len(bound) == 1 and isinstance(inner[0], ast.Call) and call_name(inner[0]) in ("max", "min") \
                and call_name(inner[0]) != outer and len(inner[0].args) == 2:
            lits2 = [lit(a) for a in inner[0].args]
            bound2 = [l for l in lits2 if l is not None]
            if len(bound2) == 1:
                b_outer, b_inner = bound[0], bound2[0]
                low = b_outer if outer == "max" else b_inner
                high = b_inner if outer == "max" else b_outer
                return lo <= low <= high <= hi
    if isinstance(arg, ast.Call) and call_name(arg) == "clip" and len(arg.args) == 3:
        a, b = lit(arg.args[1]), lit(arg.args[2])
        return a is not None and b is not None and lo <= a <= b <= hi
    return False


@rule("C17", "R1.domain", "DOMAIN",
      "the argument of every acos/asin in the disc-overlap computation is clamped to [-1, 1] syntactically: the case "
      "split on d vs r1+r2 and |r1-r2| bounds the quotient only in exact arithmetic, so at (near-)tangency the rounded "
      "quotient can leave the domain and math.acos raises", floor=2)
def r1(ctx: Ctx) -> None:
    f = ctx.func(FORCE, "circle_circle_intersection_area")
    n = 0
    for c in walk_own(f.node):
        if isinstance(c, ast.Call) and call_name(c) in PARTIAL:
            n += 1
            lo, hi = PARTIAL[call_name(c)]
            ok = len(c.args) == 1 and _is_clamped(c.args[0], lo, hi)
            ctx.site(f.where, f"{call_name(c)} argument clamped to [{lo}, {hi}]", argument=ast.unparse(c.args[0])[:120], clamped=ok)
            if not ok:
                ctx.report(f.where, f"unclamped-{call_name(c)} {ast.unparse(c.args[0])[:120]}",
                           f"math.{call_name(c)} is applied to an unclamped quotient: for tangent discs (d == r1 + r2 or d == |r1 - r2| up to "
                           "round-off) the quotient can be 1.0000000000000002 and the call raises 'math domain error'", lineno=c.lineno)
    ctx.require(n >= 2, "circle_circle_intersection_area: acos calls not found")


@rule("C17", "R2.case-split", "GUARD",
      "the far-apart case (d > r1 + r2 -> 0) and the nested case (d <= |r1 - r2| -> area of the smaller disc) are decided "
      "before the lens formula, so that the division by d happens only for d > |r1 - r2| >= 0; the two angles are the "
      "same formula with the radii exchanged", floor=4)
def r2(ctx: Ctx) -> None:
    f = ctx.func(FORCE, "circle_circle_intersection_area")
    g = ctx.cfg(f)
    c = canon_function(f, ctx.model)
    r1_, r2_ = ("p", 1), ("p", 3)
    d = ("c", ("a", (to_poly(("p", 0)) - to_poly(("p", 2))).to_s(), "norm"), (), ())
    d_alt = ("c", ("a", (to_poly(("p", 2)) - to_poly(("p", 0))).to_s(), "norm"), (), ())
    far = mk_lt((to_poly(r1_) + to_poly(r2_)).to_s(), d)
    absd = ("c", ("g", "abs"), ((to_poly(r1_) - to_poly(r2_)).to_s(),), ())
    absd2 = ("c", ("g", "abs"), ((to_poly(r2_) - to_poly(r1_)).to_s(),), ())
    from framelint.peval import paths
    from framelint.canon import single_defs, deref
    cd = deref(c, single_defs(c))
    ps = paths(cd, split_values=True)       # a result local assigned in every arm and returned once is a conditional value
    ctx.site(f.where, "far-apart discs: d > r1 + r2 -> 0", paths=len(ps))
    if not any(l == (far,) and o == k_num(0) for l, o in ps):
        ctx.report(f.where, "far-case", "the overlap of discs with d > r1 + r2 is not decided first and returned as 0", lineno=f.node.lineno)
    ctx.site(f.where, "nested discs: d <= |r1 - r2| -> pi * min(r1, r2)^2")
    small = ("c", ("g", "min"), tuple(sorted([r1_, r2_], key=skey)), ())
    want_nested = (to_poly(("a", ("g", "math"), "pi")) * to_poly(small) * to_poly(small)).to_s()
    nested = [(l, o) for l, o in ps if len(l) == 2 and o == want_nested and l[0] == mk_not(far) and
              l[1] in (mk_not(mk_lt(absd, d)), mk_not(mk_lt(absd2, d)))]
    if not nested:
        ctx.report(f.where, "nested-case", "discs with d <= |r1 - r2| are not answered with the area of the smaller disc before the lens formula", lineno=f.node.lineno)
    # every division by d / acos is dominated by d > |r1 - r2|
    n = 0
    for node, call, s in stmt_calls(ctx, f):
        if call_name(call) in PARTIAL:
            n += 1
            facts = {deref(x, single_defs(c)) for x in g.facts_at(node.id)}
            ok = mk_lt(absd, d) in facts or mk_lt(absd2, d) in facts
            ctx.site(f.where, "lens formula (division by d) dominated by d > |r1 - r2| >= 0", stmt=norm_stmt(node.ast)[:80], guarded=ok)
            if not ok:
                ctx.report(f.where, f"division-by-d {norm_stmt(node.ast)[:80]}", "the lens formula divides by the centre distance without d > |r1 - r2| being established "
                           "(concentric equal discs would divide by zero)", lineno=node.lineno, facts=facts_text(facts))
    ctx.require(n >= 2, "acos sites not found")
    # alpha / beta mirror
    acos = sorted(set(atoms_of(cd, lambda x: x[0] == "c" and x[1] == ("a", ("g", "math"), "acos"))), key=skey)
    ctx.site(f.where, "the two angles are mirror images under r1 <-> r2", angles=len(acos))
    sw = Sigma(raw_subst={r1_: r2_, r2_: r1_})
    if len(acos) != 2 or sw.apply(acos[0]) != acos[1]:
        ctx.report(f.where, "angle-mirror", "the two acos terms are not the same formula with r1 and r2 exchanged", lineno=f.node.lineno)
    # caller passes radius = sqrt(area / pi) for both discs and skips identical modules
    t = ctx.func(FORCE, "total_intersection_area")
    ct = canon_function(t, ctx.model)
    calls = atoms_of(ct, lambda x: x[0] == "c" and x[1] == ("g", "circle_circle_intersection_area"))
    ctx.site(t.where, "caller: radius = sqrt(area / pi) with each module's own centre")
    ok = False
    if len(calls) == 1 and len(calls[0][2]) == 4:
        c1, rr1, c2, rr2 = calls[0][2]
        if c1[0] == "a" and c1[2] == "center" and c2[0] == "a" and c2[2] == "center":
            m1, m2 = c1[1], c2[1]

            def rad(m):
                return ("c", ("a", ("g", "math"), "sqrt"), ((to_poly(("c", ("a", m, "area"), (), ())) * to_poly(("inv", ("a", ("g", "math"), "pi")))).to_s(),), ())
            ok = rr1 == rad(m1) and rr2 == rad(m2) and m1 != m2
    if not ok:
        ctx.report(t.where, "caller-radii", "total_intersection_area does not call the overlap with (m.center, sqrt(m.area()/pi)) for both modules", lineno=t.node.lineno)


@rule("C17", "R3.centre-distance", "LAW",
      "the distance between the two centres is computed exactly and symmetrically: Point subtraction is component-wise "
      "p + (-q) without rounding, and the norm is sqrt(x^2 + y^2) for every vector (no special case that could return a "
      "negative or signed value)", floor=4)
def r3(ctx: Ctx) -> None:
    from .points import point_arithmetic
    point_arithmetic(ctx, ops={"__neg__", "__add__", "__sub__", "norm"})


@rule("C17", "R4.function-of-its-arguments", "PURE",
      "the overlap area is a function of the four arguments of the call: circle_circle_intersection_area (and the other functions "
      "of the tool) are not wrapped by a caching decorator, and the tool keeps no process-wide state (the C20 inventory restricted "
      "to this file)", floor=1)
def r4(ctx: Ctx) -> None:
    from .C13 import _undecorated
    from . import C20 as _c20
    funcs = [f for f in ctx.model.all_functions(include_inlined=True) if f.module.relpath == FORCE]
    _undecorated(ctx, funcs)
    state = {k: w for k, w in _c20.discover_state(ctx).items() if k[0] == FORCE}
    ctx.site(FORCE, "no process-wide state in the tool", state=sorted(k[1] for k in state))
    for k, w in sorted(state.items()):
        ctx.report(f"{k[0]}::{k[1]}", f"hidden-state {k[1]}", f"{k[1]} is process-wide state of the tool: the overlap reported for two discs can depend on earlier calls", lineno=0)
