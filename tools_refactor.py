#!/venv/bin/python
"""developer aid: run only the behaviour-preserving variants of the self-test for one property and print every report
   usage: tools_refactor.py Cxx [transform-substring] [function-substring] [--show]"""
import ast, sys
sys.path.insert(0, "/verif")
sys.setrecursionlimit(20000)
from concurrent.futures import ProcessPoolExecutor
from framelint import core, selftest
import rules  # noqa

prop = sys.argv[1]
show = "--show" in sys.argv
args = [a for a in sys.argv[2:] if not a.startswith("--")]
tsub = args[0] if args else ""
fsub = args[1] if len(args) > 1 else ""
base_ctx, err = core.run_property(prop, "quick", "/repo")
base = selftest._finding_keys(base_ctx)
anch = selftest._anchored_functions(base_ctx)
tasks = []
for rel, quals in sorted(anch.items()):
    src0 = base_ctx.model.modules[rel].source
    for q in sorted(quals):
        if fsub not in q:
            continue
        for name, tf in selftest.TRANSFORMS.items():
            if tsub not in name:
                continue
            tree = ast.parse(src0)
            fn = selftest._func_node(tree, q)
            if fn is None:
                continue
            try:
                if not tf(fn):
                    continue
                ast.fix_missing_locations(tree)
                src = ast.unparse(tree)
                compile(src, rel, "exec")
            except Exception as e:
                continue
            if show:
                print(ast.unparse(fn))
            tasks.append((prop, "/repo", rel, src, f"{rel}::{q}|{name}"))
bad = 0
with ProcessPoolExecutor(16) as ex:
    for label, keys, err in ex.map(selftest._run_variant, tasks, chunksize=2):
        new = set(keys) - base
        if new or err:
            bad += 1
            print("FAIL", label)
            for k in sorted(new):
                print("    ", k[:300])
            if err:
                print("     ERR", str(err)[:600])
print(f"{len(tasks)} variants, {bad} failing")
