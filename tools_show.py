#!/venv/bin/python
"""ad-hoc: ./tools_show.py <patch dir or '-'> relpath qualname [raw]  -- print the normal form of a function, optionally with a patch applied in memory"""
import sys, os
sys.path.insert(0, os.path.dirname(os.path.abspath(__file__)))
sys.setrecursionlimit(20000)
from framelint.srcmodel import Model
from framelint.canon import canon_function, show
from framelint.selftest import patched_sources
ov = {}
if sys.argv[1] != '-':
    d = sys.argv[1]
    if not os.path.isdir(d):
        d = os.path.join(os.path.dirname(os.path.abspath(__file__)), 'benign' if '-b' in d else 'seeded', d)
    ov = patched_sources(os.path.join(d, 'patch.diff'), '/repo')
m = Model('/repo', overrides=ov) if ov else Model('/repo')
f = m.func(sys.argv[2], sys.argv[3])
def pr(b, ind=1):
    for s in b:
        if isinstance(s, tuple) and s and s[0] in ('if',) and len(s) == 4:
            print('   ' * ind + 'if ' + show(s[1])[:300] + ':'); pr(s[2], ind + 1)
            if s[3]:
                print('   ' * ind + 'else:'); pr(s[3], ind + 1)
        elif isinstance(s, tuple) and s and s[0] == 'for' and len(s) == 5:
            print('   ' * ind + 'for ' + show(s[1]) + ' in ' + show(s[2])[:300] + ':'); pr(s[3], ind + 1)
        else:
            print('   ' * ind + show(s)[:400])
pr(canon_function(f, m, None, expand=len(sys.argv) < 5))
