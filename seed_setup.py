#!/venv/bin/python
"""seed_setup.py N [Cxx ...] -- prepare scratch worktrees /tmp/wt_<id> (detached, from /repo HEAD) and task files
/tmp/out_<id>/prompt.txt for independent sub-agents asked for N property-breaking changes each.  The sub-agent gets the
property text only, nothing from /verif."""
import json, os, subprocess, sys

N = int(sys.argv[1])
want = sys.argv[2:]
T = '''You are working on the open-source Python project jordicf/FRAME (a research framework for chip floorplanning) in your own scratch git worktree at /tmp/wt_{id}. Work ONLY inside /tmp/wt_{id} and /tmp/out_{id}. Do not read or modify /repo or /verif or other /tmp/wt_* directories.

Interpreter: /venv/bin/python (has all dependencies). IMPORTANT: always run with the worktree first on the path, e.g. `cd /tmp/wt_{id} && PYTHONPATH=/tmp/wt_{id} /venv/bin/python ...`, otherwise another installed copy of the package is imported. Run the test suite with: `cd /tmp/wt_{id} && PYTHONPATH=/tmp/wt_{id} /venv/bin/python -m pytest -q -p no:cacheprovider tests` (46 tests, they pass on the unmodified tree).

PROPERTY (it must hold for every input / configuration / history, and it does hold on the unmodified tree as far as we know):

{prop}

TASK: produce {n} different, realistic code changes to FRAME's library/tool code (not to the tests), each of which makes FRAME violate this property, such that:
 (a) the code still imports and runs;
 (b) the existing test suite still passes completely with the change;
 (c) ordinary use would not expose the bug at once: it needs something specific to manifest (an unusual input, a particular multi-step sequence of operations, a particular numeric situation, or two cooperating sites that each look fine on their own);
 (d) it is the kind of change a maintainer could plausibly make (a refactor gone slightly wrong, an "optimisation", a mishandled edge case, a copy-paste slip, a helper changed for another caller's benefit) - small, 1 to 15 changed lines.
The changes must be of different nature: different functions AND different clauses of the property statement. Read the whole statement: it has several clauses; do not put all changes into the most obvious function. Changes in helper functions that the responsible code calls (also in other modules), in less-travelled branches, or in the code for one particular kind of input (one side, one axis, one topology, one operator, one module kind) are welcome.

First read the relevant source files to understand how the property is achieved. For each change i in (1..{n}) write into /tmp/out_{id}/ :
  - change_i.diff : output of `git diff` against HEAD (must apply with `git apply` at the repository root of a clean checkout);
  - demo_i.py : a standalone script, run as `cd <root> && PYTHONPATH=<root> /venv/bin/python /tmp/out_{id}/demo_i.py`, that checks the property on a specific scenario: on the UNMODIFIED code it prints PASS and exits 0; with change_i applied it prints FAIL plus what went wrong and exits 1. It must not depend on the network, on a solver being able to solve anything large, or on GUI/plot windows (if you need solver-backed tools keep instances tiny, or better test the constraint/clause construction directly). Use sys.path / PYTHONPATH of the current directory, no absolute /tmp/wt paths inside the script;
  - notes_i.md : what was changed, why it breaks the property, what is needed for it to manifest, and why the existing tests do not notice.
Verify everything yourself: with the change applied the 46 tests pass and demo_i fails; without it demo_i passes. When done, restore the worktree to a clean state (`git checkout -- .`, no untracked files left inside the worktree). Reply with a brief summary of the changes (file, function, one sentence each).'''
for l in open('/verif/properties.jsonl'):
    p = json.loads(l)
    pid = p['id']
    if want and pid not in want:
        continue
    out, wt = f"/tmp/out_{pid}", f"/tmp/wt_{pid}"
    # functions that earlier seeded changes for this property already touched (from the hunk headers of those patches)
    import glob, re as _re
    already_changed = set()
    for d_ in glob.glob(f"/verif/seeded/{pid}-*/patch.diff"):
        for m_ in _re.finditer(r"^@@[^@]*@@.*?(?:def|class) (\w+)", open(d_).read(), _re.M):
            already_changed.add(m_.group(1))
    os.makedirs(out, exist_ok=True)
    if not os.path.isdir(wt):
        subprocess.run(["git", "-C", "/repo", "worktree", "add", "--detach", "-q", wt, "HEAD"], check=True)
    prop = f"{p['title']}\n\n{p['statement']}\n\nIt must hold for: {p['quantifier']['text']}"
    open(f"{out}/property.txt", "w").write(prop)
    open(f"{out}/prompt.txt", "w").write(T.format(id=pid, prop=prop, n=N) + (("\n\nEarlier studies already broke the property inside these functions / classes; choose a DIFFERENT function and, if possible, a different clause of the statement: " + ", ".join(sorted(already_changed))) if already_changed else ""))
    print(pid, "ready")
